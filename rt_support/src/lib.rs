//! Support types linked by compiled artifacts (generated modules compiled with rustc):
//! a bit-sequence type whose wire format honours its `Store` / `Order` parameters, a keyed
//! vector used in place of ordered maps, and the round-trip driver.

use parity_scale_codec::{Compact, Decode, Encode, Error, Input, Output};

pub mod bits {
    use super::*;
    use core::marker::PhantomData;

    pub trait Store {
        const BITS: u32;
    }
    impl Store for u8 {
        const BITS: u32 = 8;
    }
    impl Store for u16 {
        const BITS: u32 = 16;
    }
    impl Store for u32 {
        const BITS: u32 = 32;
    }
    impl Store for u64 {
        const BITS: u32 = 64;
    }
    pub trait Order {
        const MSB: bool;
    }
    #[derive(Debug, Clone, PartialEq, Eq, Encode, Decode)]
    pub struct Lsb0;
    #[derive(Debug, Clone, PartialEq, Eq, Encode, Decode)]
    pub struct Msb0;
    impl Order for Lsb0 {
        const MSB: bool = false;
    }
    impl Order for Msb0 {
        const MSB: bool = true;
    }

    /// SCALE bit sequence: compact bit length, then ceil(len / BITS) store elements
    /// (little-endian each). Bits beyond `len` must be zero.
    #[derive(Debug, Clone, PartialEq, Eq)]
    pub struct DecodedBits<S, O> {
        len: u32,
        bytes: Vec<u8>,
        _p: PhantomData<(S, O)>,
    }

    impl<S: Store, O: Order> Encode for DecodedBits<S, O> {
        fn encode_to<T: Output + ?Sized>(&self, dest: &mut T) {
            Compact(self.len).encode_to(dest);
            dest.write(&self.bytes);
        }
    }

    impl<S: Store, O: Order> Decode for DecodedBits<S, O> {
        fn decode<I: Input>(input: &mut I) -> Result<Self, Error> {
            let len = Compact::<u32>::decode(input)?.0;
            let elems = (len as u64 + S::BITS as u64 - 1) / S::BITS as u64;
            let nbytes = (elems * (S::BITS as u64 / 8)) as usize;
            let mut bytes = vec![0u8; nbytes];
            input.read(&mut bytes)?;
            // the last element may be partially used: unused bits must be zero
            let used_in_last = len % S::BITS;
            if used_in_last != 0 && elems > 0 {
                let w = (S::BITS / 8) as usize;
                let last = &bytes[nbytes - w..];
                let mut v: u64 = 0;
                for (i, b) in last.iter().enumerate() {
                    v |= (*b as u64) << (8 * i);
                }
                let used_mask: u64 = if O::MSB {
                    // most significant `used_in_last` bits of the element
                    let all: u64 = if S::BITS == 64 { u64::MAX } else { (1u64 << S::BITS) - 1 };
                    all & !((1u64 << (S::BITS - used_in_last)) - 1)
                } else {
                    (1u64 << used_in_last) - 1
                };
                if v & !used_mask != 0 {
                    return Err("bits beyond the declared length are set (wrong store or order?)".into());
                }
            }
            Ok(DecodedBits { len, bytes, _p: PhantomData })
        }
    }
}

/// Stand-in for ordered maps keyed by generated types (what subxt substitutes).
#[derive(Debug, Clone, PartialEq, Eq, Encode, Decode)]
pub struct KeyedVec<K, V>(pub Vec<(K, V)>);

/// Outcome line of one round trip: `ok <consumed> <hex>` or `err <message>`.
pub fn roundtrip<T: Encode + Decode>(bytes: &[u8]) -> String {
    let mut input = bytes;
    match T::decode(&mut input) {
        Ok(v) => {
            let consumed = bytes.len() - input.len();
            let out = v.encode();
            format!("ok {consumed} {}", hex(&out))
        }
        Err(e) => format!("err {e}"),
    }
}

pub fn hex(b: &[u8]) -> String {
    let mut s = String::with_capacity(b.len() * 2);
    for x in b {
        s.push_str(&format!("{x:02x}"));
    }
    s
}

pub fn unhex(s: &str) -> Vec<u8> {
    (0..s.len() / 2).map(|i| u8::from_str_radix(&s[2 * i..2 * i + 2], 16).unwrap_or(0)).collect()
}

#!/bin/bash
# tools/reeval_all.sh [names...] — re-run the quick checks of each stored seed's own property and its neighbours
# against the current /repo + /verif; rewrites seeded/<name>/meta.json; rebuilds the harness at the end.
declare -A REL=( [C01]="C01 C03 C05 C07" [C02]="C02 C01" [C03]="C03 C04 C17" [C04]="C04 C03" [C05]="C05 C04 C03" [C06]="C06 C08 C16" [C07]="C07" [C08]="C08 C16" [C09]="C09 C02" [C10]="C10" [C11]="C11" [C12]="C12 C14" [C13]="C13 C15" [C14]="C14 C12" [C15]="C15 C13" [C16]="C16 C08" [C17]="C17 C08 C03" [C18]="C18" [neutral]="C01 C03 C04 C05 C06 C17" )
export MUTANT_NO_REBUILD=1
cd /verif/seeded
NAMES="${*:-$(ls -d */ | tr -d /)}"
for n in $NAMES; do
  p=${n%%-*}
  if grep -q '"superseded"' /verif/seeded/$n/meta.json 2>/dev/null; then echo "### $n (superseded, kept with its results at the old commit)"; continue; fi
  echo "### $n"
  /verif/tools/seed_reeval.sh $n "${REL[$p]}" 2>&1 | grep -E "rc=|mutant.sh" | cut -c1-230
done
(cd /verif/harness && cargo build --offline -q 2>&1 | grep -E "^error" | head -3)
git -C /repo status --short

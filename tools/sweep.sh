#!/bin/bash
# tools/sweep.sh "<props>" <from> <to> [tier]   — run checks over a seed range, print one line per run
# (uses the already-built harness binary of the directory it is started from)
HERE="$(cd "$(dirname "${BASH_SOURCE[0]}")/.." && pwd)"
export VERIF_DIR="$HERE"
BIN="$HERE/harness/target/debug/vharness"
(cd "$HERE/harness" && cargo build --offline -q >/dev/null 2>&1)   # always: a mutant run may have left a stale binary
TIER="${4:-quick}"
for s in $(seq "$2" "$3"); do
  for p in $1; do
    out=$("$BIN" run "$p" --tier "$TIER" --seed "$s" 2>&1)
    echo "$out" | grep -E "^(VIOLATION|  key=|INCONCLUSIVE)" | cut -c1-220
    echo "$out" | tail -1
  done
done

#!/usr/bin/env python3
"""Regenerates /verif/MANIFEST.json from the table below (kept in one place so that the manifest
is valid at all times). Run: python3 tools/gen_manifest.py"""
import json, os, subprocess
HERE = os.path.dirname(os.path.dirname(os.path.abspath(__file__)))

# id -> (category, technique, level text, level note, design ref)
CHECKS = {
 "C15": ("exploration",
         "runtime monitor: strip-and-compare + output-side indentation checker over an exhaustively enumerated small input space and random/crate-produced inputs",
         "Every string over a 9-character alphabet up to length 7 (quick) / 9 (thorough) is run through the real formatter and judged by two oracles written from the statement (content preservation, output-side indentation rule), plus random long inputs straddling the 32-character look-ahead and every description the crate produces for generated registries. Held = no violation on the executions observed; the enumeration is complete for its bound.",
         "Trusted: the harness's own oracle (about 100 lines, independent of formatting.rs: it recovers broken scopes from the output). Strings longer than the bound are sampled only.",
         "DESIGN.md section 6 C15"),
}
ALL = ["C%02d" % i for i in range(1, 19)]
NOT_BUILT = "monitor not built yet in this session (work in progress, see DESIGN.md section 6); not claimed until its check exists"

def main():
    hooks = subprocess.run(["git", "-C", "/repo", "log", "--format=%H %s"], capture_output=True, text=True).stdout.splitlines()
    hook_commits = [l.split()[0] for l in hooks if "verif-hooks" in l]
    m = {
        "version": 1,
        "setup_cmd": "./check setup",
        "hooks": {
            "guard": "cargo feature `verif-hooks` (scale-typegen/verif-hooks, scale-typegen-description/verif-hooks)",
            "enable": "the harness crate /verif/harness depends on /repo/typegen and /repo/description by path with features = [\"verif-hooks\"]; every ./check run starts with `cargo build --offline` of that crate, so the code under test is rebuilt from /repo's working tree",
            "baseline_off_cmd": "cd /repo && cargo test --workspace --no-fail-fast --offline",
            "source_commits": hook_commits,
            "add_only": True,
        },
        "engines": [{
            "name": "vharness",
            "path": "harness/",
            "serves_properties": sorted(CHECKS),
            "kind_free_text": "Rust binary: workload generators (program model + executable model of scale-info, settings, faults, histories, strings), reference-model oracles (code-model interpreter, pair-coinductive bisimulation, SCALE reference codec, spec models), one runtime monitor per property, sharded over subprocesses; three-valued verdicts; evidence and known-finding plumbing",
        }],
        "checks": [],
        "notes": "Technique family: runtime monitoring. Exit codes: 0 held, 1 violated (VIOLATION line), 2 inconclusive (INCONCLUSIVE line, never VIOLATION). Known findings: known_findings.json.",
        "not_applicable": [],
    }
    for pid in ALL:
        if pid in CHECKS:
            cat, tech, text, note, ref = CHECKS[pid]
            m["checks"].append({
                "property_id": pid,
                "quick_cmd": f"./check {pid} --tier quick",
                "thorough_cmd": f"./check {pid} --tier thorough",
                "evidence_file": f"/verif/evidence/{pid}.json",
                "replay_cmd_template": f"./check {pid} --replay {{path}}",
                "engine": "vharness",
                "level_claimed": {"category": cat, "text": text, "design_ref": ref},
                "level_note": note,
                "technique": tech,
            })
        else:
            m["not_applicable"].append({"property_id": pid, "reason": NOT_BUILT})
    with open(os.path.join(HERE, "MANIFEST.json"), "w") as f:
        json.dump(m, f, indent=1)
        f.write("\n")
    try:
        import jsonschema
        jsonschema.validate(m, json.load(open("/root/.vp/MANIFEST.schema.json")))
        print("MANIFEST.json valid,", len(m["checks"]), "checks")
    except ImportError:
        print("written (jsonschema not importable here)")

if __name__ == "__main__":
    main()

#!/usr/bin/env python3
"""Regenerates /verif/MANIFEST.json from the table below (kept in one place so that the manifest
is valid at all times). Run: python3 tools/gen_manifest.py"""
import json, os, subprocess
HERE = os.path.dirname(os.path.dirname(os.path.abspath(__file__)))

# id -> (category, technique, level text, level note, design ref)
CHECKS = {
 "C05": ("exploration",
         "runtime monitor: expected item computed from the source AST of generated programs, compared structurally with the parsed emitted item under several registration orders",
         "Thousands of coincidence-free source programs (decided exactly from the source) are pushed through the scale-info model in 3 registration orders; for every definition the expected generic item (parameters by declared position, every field type with parameters in place, Box/Cow/VecDeque/compact normalisations, one trailing marker naming exactly the unused parameters, variant indices) is compared with what the generator emitted; all orders must agree, and so must the route through ensure_unique_type_paths followed by generation.",
         "Trusted: the scale-info model (corpus-checked against real scale-info) and the expectation builder (about 150 lines, written from the normalisations named in the statement).",
         "DESIGN.md section 6 C05"),
 "C06": ("exploration",
         "runtime monitor: output equality across in-process repetitions with fresh hash maps, registration-order permutations and fresh child processes; sortedness/uniqueness checks on emitted derive and attribute lists",
         "Settings with many derives, attributes, registrations and substitutes are generated so that a leaked hash order would differ with high probability; tokens, de-duplicated registry and validation results (as sets) are compared across repetitions, permutations and processes; the number of distinct Derives::derives() iteration orders actually observed is reported and must be >= 2.",
         "Trusted: std's per-map RandomState really varies (measured per run, inconclusive otherwise).",
         "DESIGN.md section 6 C06"),
 "C07": ("exploration",
         "runtime monitor: differential generation without/with rules plus an executable specification of the rewrite applied to every type expression",
         "For thousands of (registry, rule set) pairs over every rule form the module generated with the rules must equal the specification rewrite of the module generated without them, field by field and for resolve_type_path of every id; substituted items must be absent and no reference may survive. Rules are registered by insert, by one extend call or by insert_if_not_exists, through the struct's fields or the settings' builder methods; rule parameters are also named like the generator's own (_0, _1, ..).",
         "Trusted: the syn-level rewrite (about 100 lines from the statement). Sources with skipped parameters are excluded from rules with declared generics and counted.",
         "DESIGN.md section 6 C07"),
 "C08": ("exploration",
         "runtime monitor: parsed derive/attribute sets of every emitted item against a must/may reachability sandwich computed from the emitted code graph and the registry graph",
         "Every registration uses names unique to it, so each derive on each item is attributable; items must carry global + own + recursive-from-ancestors (closure in generated code) and nothing outside the registry-graph closure; CompactAs is required / forbidden by the single-unsigned-field rule, on the rendered module and on the intermediate representation (create_type_ir) for single-member structs over every primitive kind incl. the 256-bit ones.",
         "Trusted: the two reachability closures; the sandwich makes the monitor never demand more than the statement.",
         "DESIGN.md section 6 C08"),
 "C09": ("exploration",
         "runtime monitor: all 2^6 switch combinations per registry, token-tree normaliser for the governed tokens, equality of all normalised outputs, plus per-switch honoured checks",
         "Each registry (including one hand-built program with every heap-allocated prelude type at every kind of position) is generated under all 64 combinations; doc/codec attributes, alloc prefix, root, compact and bits paths are normalised away and all outputs must coincide; `std` must not occur with a custom alloc path, docs must equal the registry's, codec attributes must be absent/present as switched (also on standalone structs built from member lists). Four more combinations with third values on the same thread (nothing remembered from an earlier generation may reappear), and the root named like a segment of the registry's own paths (must equal another root renamed, token for token).",
         "Trusted: the normaliser; identifiers used for the switch values occur nowhere else in the output by construction.",
         "DESIGN.md section 6 C09"),
 "C11": ("exploration",
         "runtime monitor: BTreeMap/BTreeSet specification of validation and of the similar-path query over generated settings mixing known and unknown paths",
         "Thousands of settings with several unknown paths, paths registered both specifically and recursively and unknown substitutes are validated; Ok iff no unknown path, and the three lists are compared as sets with each path at most once; similar-path queries are compared with the registry-order specification.",
         "Trusted: the 60-line model.",
         "DESIGN.md section 6 C11"),
 "C12": ("exploration",
         "runtime monitor: third-party encode/decode round trip (scale-value) of every returned example, seed determinism, Err only on cyclic/empty types, hook-based progress bound",
         "Hundreds of thousands of (registry, id, seed) triples incl. all primitives, all bit-sequence formats, cycles, empty enums and Polkadot; plus a hand-written gallery of recursive types that can terminate, used several times from one root; the seeded and the seedless entry point; resolve calls are bounded by the oracle's unfolding size of the type (bounded progress). Known findings: char and 256-bit primitives cannot be encoded by the pinned scale-encode.",
         "Trusted: scale-value/scale-encode/scale-decode as named by the statement.",
         "DESIGN.md section 6 C12"),
 "C13": ("exploration",
         "runtime monitor: registry-driven recursive-descent reader of the description text, reachability check for expanded types, formatted-vs-unformatted comparison, hook-based expand-once and progress bounds",
         "Every id of thousands of registries (cycles, generics, skipped parameters, bit sequences, one-element tuples, 256-bit primitives) and all 918 Polkadot ids is described and read back in lockstep with the registry; every reachable struct/enum must be expanded once; the policy may be entered at most once per named id.",
         "Trusted: the reader (about 150 lines) and the name-form convention stated in the evidence.",
         "DESIGN.md section 6 C13"),
 "C14": ("exploration",
         "runtime monitor: syn::Expr lockstep reader of every returned example against the registry and the emitted item",
         "Every id x seed x path setting of thousands of registries: the example must parse and satisfy exactly the enumerated clauses (path, field names and arity incl. marker, literal types, tuple/array/vec arity, same seed same tokens); resolve calls are bounded by the oracle's unfolding size (recursion yields an error, not a crash); identity middlewares must not change the example; the seedless entry point is judged by the same clauses.",
         "Trusted: the reader; entries merged under a parameter coincidence have no item of their own and are skipped and counted.",
         "DESIGN.md section 6 C14"),
 "C16": ("exploration",
         "runtime monitor: sequential map/set model replayed over random builder call histories with malformed arguments",
         "Histories of up to 60 public builder calls incl. one malformation per call are applied to the real builders and to a BTreeMap model; substitute maps are compared after every call, error kinds and unchanged-after-rejection are checked, and derives are read back from a generated probe registry.",
         "Trusted: the model (about 80 lines).",
         "DESIGN.md section 6 C16"),
 "C17": ("exploration",
         "runtime monitor: metamorphic relations (permutation with renumbering, retain sub-registries) on generation, de-duplication partitions, descriptions and example validity",
         "Coincidence-free registries are permuted (reversal, second-instantiation-first, random) and restricted; modules must be token-identical, rename groups equal as partitions, items of retained paths identical, descriptions and example validity unchanged.",
         "Trusted: scale-info's retain for building sub-registries; CF is decided from the source.",
         "DESIGN.md section 6 C17"),
 "C18": ("exploration",
         "runtime monitor: token comparison of API-built standalone structs with the variant in the emitted enum, derive/attribute set check, and compiled payload equality through rustc + parity-scale-codec",
         "Every variant/struct of every non-generic emitted type (thousands in Polkadot) is rebuilt through create_composite_ir_kind + CompositeIR::new + upcast_composite; fields, Box and compact markers must match the enum's variant, derives must be exactly the global ones (+CompactAs rule), registrations on the parent must not leak; the structs are compiled and encode(enum)[1..] == encode(struct) is observed on reference encodings.",
         "Trusted: rustc + parity-scale-codec 3.6.12 as runtime environment; the reference encoder.",
         "DESIGN.md section 6 C18"),
 "C02": ("exploration",
         "runtime monitor: syn parse + module-tree reader + name/arity resolution + generic-usage + inline-cycle detection over emitted modules, and rustc (with parity-scale-codec derives) as a runtime environment for batches of emitted modules",
         "Every generated module of thousands of (registry after de-duplication, settings) pairs is parsed and checked for closedness, arity, unused generics, duplicate names and heap-free cycles; resolve_type_path of every id is checked too. One (quick) / many (thorough) batches of modules, including the 918-type Polkadot module, are compiled with rustc and the real codec derives; rejected modules are attributed to their case by primary span.",
         "Trusted: syn, the harness's classifier of the alloc/core/compact/bits paths, rustc + parity-scale-codec 3.6.12 (char is excluded from compiled programs because that codec version has no impl for it).",
         "DESIGN.md section 6 C02"),
 "C10": ("fault_enumeration",
         "runtime monitor with single-fault injection at every site of every base registry; expected error per fault kind computed by an oracle walk that is cross-checked against resolve hook events",
         "Every entry id, every multi-field composite/variant of generated types, both settings paths and every field/element/parameter position of each base registry receives one fault; the returned error must be the documented one at judged sites, and nothing may panic anywhere. The fault-free tier runs all APIs on thousands of well-formed registries (deep nesting, Duration, NonZero, nested PhantomData, Polkadot).",
         "Trusted: the oracle's model of which entries generation has to look at (cross-checked per base against hook events; a disagreement is counted and noted). Bases are restricted to unique paths as the quantifier says.",
         "DESIGN.md section 6 C10"),
 "C01": ("exploration",
         "runtime monitor: reference-model oracle (code-model interpreter + pair-coinductive bisimulation against the registry) and reference SCALE codec round trips over generated programs and real chain metadata",
         "For thousands (quick) / >100k (thorough) of (registry, settings) pairs the real generator runs; every id's named type is parsed, looked up in the parsed emitted module and related to the registry type by bisimulation, then reference encodings are decoded by interpreting the code type. Held = no divergence on the executions observed; hook counters prove every TypeDef arm, parameter matching and Cow unwrapping were reached.",
         "Trusted: the scale-info simulator (validated against registries compiled with real scale-info in the corpus check), the code-model classifier, the reference codec (cross-checked per encoding against scale-value). Only WF and coincidence-free inputs of DESIGN.md section 3 are judged.",
         "DESIGN.md section 6 C01"),
 "C03": ("exploration",
         "runtime monitor: outcome-based bisimulation of every same-path family member against the single emitted item, plus an independent shape relation after de-duplication, over completely enumerated small family spaces and random/merged registries",
         "All generic and associated-type families up to the stated size bound are enumerated (thorough: completely) in every registration order, plus random larger families, two-versions-of-one-crate merges and Polkadot; on Ok every member must be faithfully represented by the one emitted item; after ensure_unique_type_paths path mates must be same-shaped by the oracle's own relation. Known findings (parameter coincidence) are keyed and reported as such.",
         "Trusted: the bisimulation and regeq oracles; hook events are used only for diagnosis text. Families beyond the enumerated bound are sampled.",
         "DESIGN.md section 6 C03"),
 "C04": ("exploration",
         "runtime monitor: frame-condition diff, oracle shape classes, idempotence and naming checks on ensure_unique_type_paths over enumerated and random same-path families",
         "R, R'=dedup(R), R''=dedup(R') are compared field by field; renames must be confined to families the oracle's own relation splits, generation must stop failing with DuplicateTypePath, coincidence-free instantiations must stay together, R''==R', names must be old+1..k by first appearance. Known findings (suffix collision, parameter coincidence) are keyed on input predicates.",
         "Trusted: regeq as the meaning of 'differently shaped' (same definition up to the root's generic arguments, recorded nested arguments and variant indices included).",
         "DESIGN.md section 6 C04"),
 "C15": ("exploration",
         "runtime monitor: strip-and-compare + output-side indentation checker over an exhaustively enumerated small input space and random/crate-produced inputs",
         "Every string over a 9-character alphabet up to length 7 (quick) / 9 (thorough) is run through the real formatter and judged by two oracles written from the statement (content preservation, output-side indentation rule), plus random long inputs straddling the 32-character look-ahead and every description the crate produces for generated registries. Held = no violation on the executions observed; the enumeration is complete for its bound.",
         "Trusted: the harness's own oracle (about 100 lines, independent of formatting.rs: it recovers broken scopes from the output). Strings longer than the bound are sampled only.",
         "DESIGN.md section 6 C15"),
}
ALL = ["C%02d" % i for i in range(1, 19)]
NOT_BUILT = "monitor not built yet in this session (work in progress, see DESIGN.md section 6); not claimed until its check exists"

def main():
    hooks = subprocess.run(["git", "-C", "/repo", "log", "--format=%H %s"], capture_output=True, text=True).stdout.splitlines()
    hook_commits = [l.split()[0] for l in hooks if "verif-hooks" in l]
    m = {
        "version": 1,
        "setup_cmd": "./check setup",
        "hooks": {
            "guard": "cargo feature `verif-hooks` (scale-typegen/verif-hooks, scale-typegen-description/verif-hooks)",
            "enable": "the harness crate /verif/harness depends on /repo/typegen and /repo/description by path with features = [\"verif-hooks\"]; every ./check run starts with `cargo build --offline` of that crate, so the code under test is rebuilt from /repo's working tree",
            "baseline_off_cmd": "cd /repo && cargo test --workspace --no-fail-fast --offline",
            "source_commits": hook_commits,
            "add_only": True,
        },
        "engines": [{
            "name": "vharness",
            "path": "harness/",
            "serves_properties": sorted(CHECKS),
            "kind_free_text": "Rust binary: workload generators (program model + executable model of scale-info, settings, faults, histories, strings), reference-model oracles (code-model interpreter, pair-coinductive bisimulation, SCALE reference codec, spec models), one runtime monitor per property, sharded over subprocesses; three-valued verdicts; evidence and known-finding plumbing",
        }],
        "checks": [],
        "notes": "Technique family: runtime monitoring. Exit codes: 0 held, 1 violated (VIOLATION line), 2 inconclusive (INCONCLUSIVE line, never VIOLATION). Known findings: known_findings.json.",
        "not_applicable": [],
    }
    for pid in ALL:
        if pid in CHECKS:
            cat, tech, text, note, ref = CHECKS[pid]
            m["checks"].append({
                "property_id": pid,
                "quick_cmd": f"./check {pid} --tier quick",
                "thorough_cmd": f"./check {pid} --tier thorough",
                "evidence_file": f"/verif/evidence/{pid}.json",
                "replay_cmd_template": f"./check {pid} --replay {{path}}",
                "engine": "vharness",
                "level_claimed": {"category": cat, "text": text, "design_ref": ref},
                "level_note": note,
                "technique": tech,
            })
        else:
            m["not_applicable"].append({"property_id": pid, "reason": NOT_BUILT})
    with open(os.path.join(HERE, "MANIFEST.json"), "w") as f:
        json.dump(m, f, indent=1)
        f.write("\n")
    try:
        import jsonschema
        jsonschema.validate(m, json.load(open("/root/.vp/MANIFEST.schema.json")))
        print("MANIFEST.json valid,", len(m["checks"]), "checks")
    except ImportError:
        print("written (jsonschema not importable here)")

if __name__ == "__main__":
    main()

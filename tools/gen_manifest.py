#!/usr/bin/env python3
"""Regenerates /verif/MANIFEST.json from the table below (kept in one place so that the manifest
is valid at all times). Run: python3 tools/gen_manifest.py"""
import json, os, subprocess
HERE = os.path.dirname(os.path.dirname(os.path.abspath(__file__)))

# id -> (category, technique, level text, level note, design ref)
CHECKS = {
 "C02": ("exploration",
         "runtime monitor: syn parse + module-tree reader + name/arity resolution + generic-usage + inline-cycle detection over emitted modules, and rustc (with parity-scale-codec derives) as a runtime environment for batches of emitted modules",
         "Every generated module of thousands of (registry after de-duplication, settings) pairs is parsed and checked for closedness, arity, unused generics, duplicate names and heap-free cycles; resolve_type_path of every id is checked too. One (quick) / many (thorough) batches of modules, including the 918-type Polkadot module, are compiled with rustc and the real codec derives; rejected modules are attributed to their case by primary span.",
         "Trusted: syn, the harness's classifier of the alloc/core/compact/bits paths, rustc + parity-scale-codec 3.6.12 (char is excluded from compiled programs because that codec version has no impl for it).",
         "DESIGN.md section 6 C02"),
 "C10": ("fault_enumeration",
         "runtime monitor with single-fault injection at every site of every base registry; expected error per fault kind computed by an oracle walk that is cross-checked against resolve hook events",
         "Every entry id, every multi-field composite/variant of generated types, both settings paths and every field/element/parameter position of each base registry receives one fault; the returned error must be the documented one at judged sites, and nothing may panic anywhere. The fault-free tier runs all APIs on thousands of well-formed registries (deep nesting, Duration, NonZero, nested PhantomData, Polkadot).",
         "Trusted: the oracle's model of which entries generation has to look at (cross-checked per base against hook events; a disagreement is counted and noted). Bases are restricted to unique paths as the quantifier says.",
         "DESIGN.md section 6 C10"),
 "C01": ("exploration",
         "runtime monitor: reference-model oracle (code-model interpreter + pair-coinductive bisimulation against the registry) and reference SCALE codec round trips over generated programs and real chain metadata",
         "For thousands (quick) / >100k (thorough) of (registry, settings) pairs the real generator runs; every id's named type is parsed, looked up in the parsed emitted module and related to the registry type by bisimulation, then reference encodings are decoded by interpreting the code type. Held = no divergence on the executions observed; hook counters prove every TypeDef arm, parameter matching and Cow unwrapping were reached.",
         "Trusted: the scale-info simulator (validated against registries compiled with real scale-info in the corpus check), the code-model classifier, the reference codec (cross-checked per encoding against scale-value). Only WF and coincidence-free inputs of DESIGN.md section 3 are judged.",
         "DESIGN.md section 6 C01"),
 "C03": ("exploration",
         "runtime monitor: outcome-based bisimulation of every same-path family member against the single emitted item, plus an independent shape relation after de-duplication, over completely enumerated small family spaces and random/merged registries",
         "All generic and associated-type families up to the stated size bound are enumerated (thorough: completely) in every registration order, plus random larger families, two-versions-of-one-crate merges and Polkadot; on Ok every member must be faithfully represented by the one emitted item; after ensure_unique_type_paths path mates must be same-shaped by the oracle's own relation. Known findings (parameter coincidence) are keyed and reported as such.",
         "Trusted: the bisimulation and regeq oracles; hook events are used only for diagnosis text. Families beyond the enumerated bound are sampled.",
         "DESIGN.md section 6 C03"),
 "C04": ("exploration",
         "runtime monitor: frame-condition diff, oracle shape classes, idempotence and naming checks on ensure_unique_type_paths over enumerated and random same-path families",
         "R, R'=dedup(R), R''=dedup(R') are compared field by field; renames must be confined to families the oracle's own relation splits, generation must stop failing with DuplicateTypePath, coincidence-free instantiations must stay together, R''==R', names must be old+1..k by first appearance. Known findings (suffix collision, parameter coincidence) are keyed on input predicates.",
         "Trusted: regeq as the meaning of 'differently shaped' (same definition up to the root's generic arguments, recorded nested arguments and variant indices included).",
         "DESIGN.md section 6 C04"),
 "C15": ("exploration",
         "runtime monitor: strip-and-compare + output-side indentation checker over an exhaustively enumerated small input space and random/crate-produced inputs",
         "Every string over a 9-character alphabet up to length 7 (quick) / 9 (thorough) is run through the real formatter and judged by two oracles written from the statement (content preservation, output-side indentation rule), plus random long inputs straddling the 32-character look-ahead and every description the crate produces for generated registries. Held = no violation on the executions observed; the enumeration is complete for its bound.",
         "Trusted: the harness's own oracle (about 100 lines, independent of formatting.rs: it recovers broken scopes from the output). Strings longer than the bound are sampled only.",
         "DESIGN.md section 6 C15"),
}
ALL = ["C%02d" % i for i in range(1, 19)]
NOT_BUILT = "monitor not built yet in this session (work in progress, see DESIGN.md section 6); not claimed until its check exists"

def main():
    hooks = subprocess.run(["git", "-C", "/repo", "log", "--format=%H %s"], capture_output=True, text=True).stdout.splitlines()
    hook_commits = [l.split()[0] for l in hooks if "verif-hooks" in l]
    m = {
        "version": 1,
        "setup_cmd": "./check setup",
        "hooks": {
            "guard": "cargo feature `verif-hooks` (scale-typegen/verif-hooks, scale-typegen-description/verif-hooks)",
            "enable": "the harness crate /verif/harness depends on /repo/typegen and /repo/description by path with features = [\"verif-hooks\"]; every ./check run starts with `cargo build --offline` of that crate, so the code under test is rebuilt from /repo's working tree",
            "baseline_off_cmd": "cd /repo && cargo test --workspace --no-fail-fast --offline",
            "source_commits": hook_commits,
            "add_only": True,
        },
        "engines": [{
            "name": "vharness",
            "path": "harness/",
            "serves_properties": sorted(CHECKS),
            "kind_free_text": "Rust binary: workload generators (program model + executable model of scale-info, settings, faults, histories, strings), reference-model oracles (code-model interpreter, pair-coinductive bisimulation, SCALE reference codec, spec models), one runtime monitor per property, sharded over subprocesses; three-valued verdicts; evidence and known-finding plumbing",
        }],
        "checks": [],
        "notes": "Technique family: runtime monitoring. Exit codes: 0 held, 1 violated (VIOLATION line), 2 inconclusive (INCONCLUSIVE line, never VIOLATION). Known findings: known_findings.json.",
        "not_applicable": [],
    }
    for pid in ALL:
        if pid in CHECKS:
            cat, tech, text, note, ref = CHECKS[pid]
            m["checks"].append({
                "property_id": pid,
                "quick_cmd": f"./check {pid} --tier quick",
                "thorough_cmd": f"./check {pid} --tier thorough",
                "evidence_file": f"/verif/evidence/{pid}.json",
                "replay_cmd_template": f"./check {pid} --replay {{path}}",
                "engine": "vharness",
                "level_claimed": {"category": cat, "text": text, "design_ref": ref},
                "level_note": note,
                "technique": tech,
            })
        else:
            m["not_applicable"].append({"property_id": pid, "reason": NOT_BUILT})
    with open(os.path.join(HERE, "MANIFEST.json"), "w") as f:
        json.dump(m, f, indent=1)
        f.write("\n")
    try:
        import jsonschema
        jsonschema.validate(m, json.load(open("/root/.vp/MANIFEST.schema.json")))
        print("MANIFEST.json valid,", len(m["checks"]), "checks")
    except ImportError:
        print("written (jsonschema not importable here)")

if __name__ == "__main__":
    main()

#!/bin/bash
# tools/refresh_evidence.sh [tier...] — run the registered commands in /verif itself (default: quick, then
# thorough, default seed) so that evidence/<id>.json comes from the current tree; prints one line per run.
cd "$(dirname "${BASH_SOURCE[0]}")/.."
TIERS="${*:-quick thorough}"
rc_all=0
for tier in $TIERS; do
  for p in C01 C02 C03 C04 C05 C06 C07 C08 C09 C10 C11 C13 C14 C15 C16 C17 C18 C12; do
    out=$(./check $p --tier $tier 2>&1); rc=$?
    echo "$out" | grep -E "^(VIOLATION|INCONCLUSIVE)" | cut -c1-200
    echo "$out" | tail -1 | sed "s/$/ rc=$rc/"
    [ $rc -ne 0 ] && rc_all=1
  done
done
exit $rc_all

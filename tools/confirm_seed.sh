#!/bin/bash
# tools/confirm_seed.sh <scratch-worktree> <k> [crate-dir]  — confirm a sub-agent's seeded change in ITS scratch
# worktree: unpatched tree -> demo passes; patched tree -> builds (default, --all-features), the
# existing suite passes, the demo fails.  Prints CONFIRMED / NOT-CONFIRMED.
set -u
D="$1"; K="$2"; CR="${3:-typegen}"
cd "$D" || exit 3
git checkout -q -- . ; git clean -fdq -e OUT -e target
DEMO=$(ls OUT/$K/*.rs 2>/dev/null | head -1)
[ -n "$DEMO" ] || { echo "NOT-CONFIRMED no demo .rs in OUT/$K"; exit 1; }
NAME=$(basename "$DEMO" .rs)
# the sub-agent may have prescribed a file name (type paths contain the test crate name)
WANT=$(grep -ohE "tests/[a-z0-9_]+\.rs" OUT/$K/notes.md "$DEMO" 2>/dev/null | grep -vE "tests/(utils|mod|lib|main)\.rs" | head -1 | sed 's|tests/||; s|\.rs||')
[ -n "$WANT" ] && NAME="$WANT"
PKG=scale-typegen; [ "$CR" = description ] && PKG=scale-typegen-description
mkdir -p $CR/tests && cp "$DEMO" $CR/tests/$NAME.rs
cargo test --offline -q -p $PKG --test $NAME >/tmp/confirm_$$.log 2>&1; BASE=$?
rm -f $CR/tests/$NAME.rs
git apply OUT/$K/patch.diff || { echo "NOT-CONFIRMED patch does not apply"; exit 1; }
cargo build --offline -q >/dev/null 2>&1; B1=$?
cargo build --offline -q --all-features >/dev/null 2>&1; B2=$?
cargo test --workspace --offline 2>&1 | grep -E "test result" > /tmp/confirm_t_$$.log; 
FAILED=$(grep -c "FAILED\|failed; [1-9]" /tmp/confirm_t_$$.log); PASSED=$(awk '{s+=$4} END{print s}' /tmp/confirm_t_$$.log)
cp "$DEMO" $CR/tests/$NAME.rs
cargo test --offline -q -p $PKG --test $NAME >/tmp/confirm_p_$$.log 2>&1; WITH=$?
git checkout -q -- . ; git clean -fdq -e OUT -e target
if [ $BASE -eq 0 ] && [ $B1 -eq 0 ] && [ $B2 -eq 0 ] && [ "$FAILED" = 0 ] && [ "$PASSED" -ge 54 ] && [ $WITH -ne 0 ]; then
  echo "CONFIRMED $D/OUT/$K: demo passes unpatched, fails patched; builds ok; suite $PASSED passed"
else
  echo "NOT-CONFIRMED $D/OUT/$K: demo-unpatched=$BASE build=$B1 build-all=$B2 suite-failed=$FAILED passed=$PASSED demo-patched=$WITH"
fi
rm -f /tmp/confirm_$$.log /tmp/confirm_t_$$.log /tmp/confirm_p_$$.log

#!/bin/bash
# tools/seed_eval.sh <Cxx> <k> "<props to run>" — store a confirmed seeded change under seeded/<Cxx>-<k>/ and
# run the given quick checks against it (applied to /repo, restored afterwards).
set -u
P="$1"; K="$2"; PROPS="$3"
SRC=${SEED_SRC:-/tmp/mut}/$P/OUT/$K
N=${SEED_NAME:-$K}
DST=/verif/seeded/$P-$N
mkdir -p "$DST"
cp "$SRC/patch.diff" "$DST/patch.diff"
cp "$SRC"/*.rs "$DST/" 2>/dev/null
cp "$SRC/notes.md" "$DST/notes.md" 2>/dev/null
RES=$(/verif/tools/mutant.sh "$DST/patch.diff" "$PROPS" 2>&1)
echo "$RES"
python3 - "$P" "$N" "$DST" <<PY
import json,sys,re
p,k,dst=sys.argv[1:4]
res = """$RES"""
checks=[]
for l in res.splitlines():
    m=re.match(r'(C\d+) rc=(\d+) keys=\[(.*?)\]',l)
    if m: checks.append({"check":m.group(1),"exit":int(m.group(2)),"violation_keys":m.group(3).split()})
meta={"breaks_property":p,"seed":k,"origin":"independent sub-agent given only the property text and a scratch worktree",
"confirmed":"tools/confirm_seed.sh: unpatched tree -> demo passes; patched -> builds (default and --all-features), the 54 existing tests pass, demo fails",
"needs_to_manifest":"see notes.md","ran":"tools/mutant.sh (git apply to /repo, ./check <id> --tier quick, git checkout)","results":checks,
"detected_by":[c["check"] for c in checks if c["exit"]==1]}
json.dump(meta,open(dst+"/meta.json","w"),indent=1)
PY

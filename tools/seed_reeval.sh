#!/bin/bash
# tools/seed_reeval.sh <seed dir name> "<props>" — re-run quick checks against a stored seed (applied to /repo,
# restored afterwards) and rewrite results / detected_by / repo_commit in its meta.json.
set -u
N="$1"; PROPS="$2"
DST=/verif/seeded/$N
RES=$(/verif/tools/mutant.sh "$DST/patch.diff" "$PROPS" 2>&1)
echo "$RES"
python3 - "$N" "$DST" "$(git -C /repo rev-parse --short HEAD)" <<PY
import json,sys,re,os
n,dst,commit=sys.argv[1:4]
res = """$RES"""
checks=[]
for l in res.splitlines():
    m=re.match(r'(C\d+) rc=(\d+) keys=\[(.*?)\]',l)
    if m: checks.append({"check":m.group(1),"exit":int(m.group(2)),"violation_keys":m.group(3).split()})
p=dst+"/meta.json"
meta=json.load(open(p)) if os.path.exists(p) else {"seed":n}
meta["results"]=checks
meta["detected_by"]=[c["check"] for c in checks if c["exit"]==1]
meta["repo_commit"]=commit
json.dump(meta,open(p,"w"),indent=1)
PY

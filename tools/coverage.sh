#!/bin/bash
# tools/coverage.sh [tier] — line coverage of /repo's sources under all registered checks (diagnostic, not a
# check): builds the harness with -Cinstrument-coverage (nightly toolchain, its llvm-tools) into .scratch/cov,
# runs every monitor once, prints llvm-cov's report for /repo/typegen/src and /repo/description/src and
# writes it to coverage.txt. Evidence files are not touched (VERIF_EVIDENCE_DIR points into .scratch).
set -u
HERE="$(cd "$(dirname "${BASH_SOURCE[0]}")/.." && pwd)"
export VERIF_DIR="$HERE"
TIER="${1:-quick}"
COV="$HERE/.scratch/cov"; mkdir -p "$COV"; rm -f "$COV"/*.profraw
T="$(rustc +nightly --print sysroot)/lib/rustlib/x86_64-unknown-linux-gnu/bin"
# (proc macros and build scripts of instrumented crates write profiles where they run: keep them out of /repo)
(cd "$HERE/harness" && LLVM_PROFILE_FILE="$COV/build-%p-%m.profraw" RUSTFLAGS="-Cinstrument-coverage" CARGO_TARGET_DIR="$COV/target" cargo +nightly build --offline -q 2>/dev/null) || { echo "coverage build failed"; exit 2; }
rm -f "$COV"/build-*.profraw
for p in C01 C02 C03 C04 C05 C06 C07 C08 C09 C10 C11 C12 C13 C14 C15 C16 C17 C18; do
  LLVM_PROFILE_FILE="$COV/$p-%p.profraw" VERIF_EVIDENCE_DIR="$COV/ev" "$COV/target/debug/vharness" run $p --tier "$TIER" --seed "${VERIF_SEED:-0}" 2>&1 | tail -1
done
"$T/llvm-profdata" merge -sparse "$COV"/*.profraw -o "$COV/all.profdata"
"$T/llvm-cov" report "$COV/target/debug/vharness" -instr-profile="$COV/all.profdata" /repo/typegen/src /repo/description/src 2>/dev/null \
  | awk 'NR==1{print "file lines missed cover"} /^(typegen|description|TOTAL)/{print $1, $(NF-5), $(NF-4), $(NF-3)}' | tee "$HERE/coverage.txt"

#!/bin/bash
# tools/mutant.sh <patch.diff|-R:commit> "<props>" [seed]  — apply a change to /repo, run the quick checks of
# the given properties, print one summary line per check, and restore /repo.  Never leaves /repo modified.
set -u
PATCH="$1"; PROPS="$2"; SEED="${3:-0}"
cd /repo || exit 3
if ! git diff --quiet; then echo "mutant.sh: /repo has uncommitted changes, refusing"; exit 3; fi
restore() { git -C /repo checkout -- . ; git -C /repo clean -fdq -e target >/dev/null 2>&1; [ -n "${MUTANT_NO_REBUILD:-}" ] || (cd /verif/harness && cargo build --offline -q >/dev/null 2>&1); }
trap restore EXIT
if [[ "$PATCH" == -R:* ]]; then
  c="${PATCH#-R:}"
  git diff "$c^" "$c" | git apply -R || { echo "mutant.sh: cannot revert $c"; exit 3; }
else
  git apply "$PATCH" || { echo "mutant.sh: patch does not apply"; exit 3; }
fi
for p in $PROPS; do
  out=$(cd /verif && VERIF_SEED=$SEED ./check "$p" --tier quick 2>&1)
  rc=$?
  keys=$(echo "$out" | grep -E "^  key=" | sed 's/  key=//' | sort -u | tr '\n' ' ')
  echo "$p rc=$rc keys=[$keys] $(echo "$out" | tail -1 | cut -c1-120)"
done

//! Source-program model: a finite set of Rust struct/enum definitions in nested modules plus an
//! instantiation set. DESIGN.md section 3.2. Nothing here calls into /repo.

use rand::seq::SliceRandom;
use rand::Rng;
use serde::{Deserialize, Serialize};

#[derive(Clone, Copy, Debug, PartialEq, Eq, Hash, PartialOrd, Ord, Serialize, Deserialize)]
pub enum Prim {
    Bool,
    Char,
    U8,
    U16,
    U32,
    U64,
    U128,
    I8,
    I16,
    I32,
    I64,
    I128,
}

impl Prim {
    pub const ALL: [Prim; 12] = [
        Prim::Bool,
        Prim::Char,
        Prim::U8,
        Prim::U16,
        Prim::U32,
        Prim::U64,
        Prim::U128,
        Prim::I8,
        Prim::I16,
        Prim::I32,
        Prim::I64,
        Prim::I128,
    ];
    pub const UINTS: [Prim; 5] = [Prim::U8, Prim::U16, Prim::U32, Prim::U64, Prim::U128];
    pub const INTS: [Prim; 10] = [
        Prim::U8,
        Prim::U16,
        Prim::U32,
        Prim::U64,
        Prim::U128,
        Prim::I8,
        Prim::I16,
        Prim::I32,
        Prim::I64,
        Prim::I128,
    ];
    pub fn name(self) -> &'static str {
        match self {
            Prim::Bool => "bool",
            Prim::Char => "char",
            Prim::U8 => "u8",
            Prim::U16 => "u16",
            Prim::U32 => "u32",
            Prim::U64 => "u64",
            Prim::U128 => "u128",
            Prim::I8 => "i8",
            Prim::I16 => "i16",
            Prim::I32 => "i32",
            Prim::I64 => "i64",
            Prim::I128 => "i128",
        }
    }
    pub fn nonzero_name(self) -> &'static str {
        match self {
            Prim::U8 => "NonZeroU8",
            Prim::U16 => "NonZeroU16",
            Prim::U32 => "NonZeroU32",
            Prim::U64 => "NonZeroU64",
            Prim::U128 => "NonZeroU128",
            Prim::I8 => "NonZeroI8",
            Prim::I16 => "NonZeroI16",
            Prim::I32 => "NonZeroI32",
            Prim::I64 => "NonZeroI64",
            Prim::I128 => "NonZeroI128",
            _ => panic!("no nonzero for {self:?}"),
        }
    }
}

/// A source-level type expression.
#[derive(Clone, Debug, PartialEq, Eq, Hash, PartialOrd, Ord, Serialize, Deserialize)]
pub enum Ty {
    Prim(Prim),
    /// `String`
    Str,
    /// i-th declared parameter of the enclosing definition
    Param(usize),
    /// `<Param(i) as Cfg>::A{k}`
    Assoc(usize, usize),
    /// user definition applied to arguments
    Def(usize, Vec<Ty>),
    /// marker unit struct `M{j}` implementing `Cfg`
    Marker(usize),
    Vec(Box<Ty>),
    VecDeque(Box<Ty>),
    Array(Box<Ty>, u32),
    Tuple(Vec<Ty>),
    Option(Box<Ty>),
    Result(Box<Ty>, Box<Ty>),
    Box(Box<Ty>),
    /// `Cow<'static, T>`; `CowStr` is `Cow<'static, str>`
    Cow(Box<Ty>),
    CowStr,
    BTreeMap(Box<Ty>, Box<Ty>),
    BTreeSet(Box<Ty>),
    BinaryHeap(Box<Ty>),
    Range(Box<Ty>),
    RangeInclusive(Box<Ty>),
    NonZero(Prim),
    Duration,
    Phantom(Box<Ty>),
    Compact(Box<Ty>),
    /// `BitVec<store, Lsb0|Msb0>`; `true` = Msb0
    BitVec(Prim, bool),
    /// `BitVec<P, Lsb0|Msb0>` whose store is the type parameter with this index (instantiated
    /// with u8/u16/u32/u64 only)
    BitVecOf(usize, bool),
    /// type alias `name = inner` (printed by name, transparent otherwise)
    Alias(String, Box<Ty>),
    /// `[T]` — only as an interning key of the scale-info model (identity of Vec / VecDeque)
    Slice(Box<Ty>),
    /// `str` — only as an interning key (identity of String)
    StrSlice,
}

#[derive(Clone, Debug, PartialEq, Eq, Serialize, Deserialize)]
pub struct ParamDecl {
    pub name: String,
    pub skipped: bool,
    /// has a `Cfg` bound (so `T::A0` is usable)
    pub cfg: bool,
    /// only instantiated with unsigned integers (so that `Compact<T>` / `#[codec(compact)] x: T`
    /// is legal)
    #[serde(default)]
    pub uint: bool,
}

#[derive(Clone, Debug, PartialEq, Eq, Serialize, Deserialize)]
pub struct FieldDecl {
    pub name: Option<String>,
    pub ty: Ty,
    /// `#[codec(compact)]`
    pub compact: bool,
    /// `#[codec(skip)]`
    pub skip: bool,
    pub docs: Vec<String>,
}

#[derive(Clone, Copy, Debug, PartialEq, Eq, Serialize, Deserialize)]
pub enum Style {
    Named,
    Unnamed,
    Unit,
}

#[derive(Clone, Debug, PartialEq, Eq, Serialize, Deserialize)]
pub struct VariantDecl {
    pub name: String,
    pub index: Option<u8>,
    pub style: Style,
    pub fields: Vec<FieldDecl>,
    pub docs: Vec<String>,
}

#[derive(Clone, Debug, PartialEq, Eq, Serialize, Deserialize)]
pub enum DefKind {
    Struct(Style, Vec<FieldDecl>),
    Enum(Vec<VariantDecl>),
}

#[derive(Clone, Debug, PartialEq, Eq, Serialize, Deserialize)]
pub struct Def {
    /// module path below the crate root
    pub module: Vec<String>,
    pub name: String,
    pub params: Vec<ParamDecl>,
    pub kind: DefKind,
    pub docs: Vec<String>,
}

/// Marker type implementing `Cfg` with `NASSOC` associated types.
#[derive(Clone, Debug, PartialEq, Eq, Serialize, Deserialize)]
pub struct Marker {
    pub assoc: Vec<Ty>,
}

pub const NASSOC: usize = 2;

#[derive(Clone, Debug, PartialEq, Eq, Serialize, Deserialize)]
pub struct Program {
    pub krate: String,
    pub defs: Vec<Def>,
    pub markers: Vec<Marker>,
    /// closed types registered as roots, in order
    pub roots: Vec<Ty>,
    /// module path (below the crate root) in which the whole program lives (corpus builds put
    /// many programs into one crate); empty = crate root
    #[serde(default)]
    pub prefix: Vec<String>,
}

impl Ty {
    pub fn b(self) -> Box<Ty> {
        Box::new(self)
    }

    /// Substitute parameters (and associated types) of the enclosing definition.
    pub fn subst(&self, args: &[Ty], prog: &Program) -> Ty {
        use Ty::*;
        let s = |t: &Ty| t.subst(args, prog);
        let sb = |t: &Ty| std::boxed::Box::new(t.subst(args, prog));
        match self {
            Prim(_) | Str | Marker(_) | NonZero(_) | Duration | BitVec(..) | CowStr | StrSlice => self.clone(),
            BitVecOf(i, msb) => match &args[*i] {
                Prim(p) => BitVec(*p, *msb),
                Param(j) => BitVecOf(*j, *msb),
                _ => BitVec(crate::prog::Prim::U8, *msb),
            },
            Slice(t) => Slice(sb(t)),
            Param(i) => args[*i].clone(),
            Assoc(i, k) => match args[*i].strip_alias() {
                Marker(j) => prog.markers[*j].assoc[*k].clone(),
                other => panic!("assoc type of non-marker argument {other:?}"),
            },
            Def(d, a) => Def(*d, a.iter().map(s).collect()),
            Vec(t) => Vec(sb(t)),
            VecDeque(t) => VecDeque(sb(t)),
            Array(t, n) => Array(sb(t), *n),
            Tuple(ts) => Tuple(ts.iter().map(s).collect()),
            Option(t) => Option(sb(t)),
            Result(a, b) => Result(sb(a), sb(b)),
            Box(t) => Box(sb(t)),
            Cow(t) => Cow(sb(t)),
            BTreeMap(a, b) => BTreeMap(sb(a), sb(b)),
            BTreeSet(t) => BTreeSet(sb(t)),
            BinaryHeap(t) => BinaryHeap(sb(t)),
            Range(t) => Range(sb(t)),
            RangeInclusive(t) => RangeInclusive(sb(t)),
            Phantom(t) => Phantom(sb(t)),
            Compact(t) => Compact(sb(t)),
            Alias(n, t) => Alias(n.clone(), sb(t)),
        }
    }

    pub fn strip_alias(&self) -> &Ty {
        match self {
            Ty::Alias(_, t) => t.strip_alias(),
            t => t,
        }
    }

    /// Does the expression mention a parameter (or assoc type)?
    pub fn mentions_param(&self) -> bool {
        let mut found = false;
        self.walk(&mut |t| {
            if matches!(t, Ty::Param(_) | Ty::Assoc(..) | Ty::BitVecOf(..)) {
                found = true
            }
        });
        found
    }

    pub fn walk(&self, f: &mut dyn FnMut(&Ty)) {
        use Ty::*;
        f(self);
        match self {
            Prim(_) | Str | Marker(_) | NonZero(_) | Duration | BitVec(..) | BitVecOf(..) | CowStr | Param(_)
            | Assoc(..) | StrSlice => {}
            Def(_, a) | Tuple(a) => a.iter().for_each(|t| t.walk(f)),
            Vec(t) | VecDeque(t) | Array(t, _) | Option(t) | Box(t) | Cow(t) | BTreeSet(t)
            | BinaryHeap(t) | Range(t) | RangeInclusive(t) | Phantom(t) | Compact(t)
            | Alias(_, t) | Slice(t) => t.walk(f),
            Result(a, b) | BTreeMap(a, b) => {
                a.walk(f);
                b.walk(f)
            }
        }
    }
}

impl Program {
    /// `crate::p::q` — where markers, aliases and the Cfg trait live
    pub fn root_path(&self) -> String {
        let mut p = vec!["crate".to_string()];
        p.extend(self.prefix.iter().cloned());
        p.join("::")
    }

    /// The same program living in module `name` (definitions' module paths are prefixed).
    pub fn prefixed(&self, name: &str) -> Program {
        let mut p = self.clone();
        p.prefix = vec![name.to_string()];
        for d in p.defs.iter_mut() {
            d.module.insert(0, name.to_string());
        }
        p
    }

    pub fn def_path(&self, d: usize) -> Vec<String> {
        let def = &self.defs[d];
        let mut p = vec![self.krate.clone()];
        p.extend(def.module.iter().cloned());
        p.push(def.name.clone());
        p
    }

    /// Rust source for a type expression as written inside the definition `ctx` (None: crate root).
    pub fn render_ty(&self, ty: &Ty, ctx: Option<usize>) -> String {
        use Ty::*;
        let r = |t: &Ty| self.render_ty(t, ctx);
        match ty {
            Prim(p) => p.name().to_string(),
            Str => "String".into(),
            Param(i) => self.defs[ctx.expect("param outside def")].params[*i].name.clone(),
            Assoc(i, k) => format!(
                "{}::A{}",
                self.defs[ctx.expect("assoc outside def")].params[*i].name,
                k
            ),
            Def(d, args) => {
                let def = &self.defs[*d];
                let same_mod = ctx.map(|c| self.defs[c].module == def.module).unwrap_or(false);
                let mut s = if same_mod {
                    def.name.clone()
                } else {
                    let mut p = vec!["crate".to_string()];
                    p.extend(def.module.iter().cloned());
                    p.push(def.name.clone());
                    p.join("::")
                };
                if !args.is_empty() {
                    s.push('<');
                    s.push_str(&args.iter().map(r).collect::<std::vec::Vec<_>>().join(", "));
                    s.push('>');
                }
                s
            }
            Marker(j) => format!("{}::M{j}", self.root_path()),
            Vec(t) => format!("Vec<{}>", r(t)),
            VecDeque(t) => format!("VecDeque<{}>", r(t)),
            Array(t, n) => format!("[{}; {}]", r(t), n),
            Tuple(ts) => {
                if ts.len() == 1 {
                    format!("({},)", r(&ts[0]))
                } else {
                    format!("({})", ts.iter().map(r).collect::<std::vec::Vec<_>>().join(", "))
                }
            }
            Option(t) => format!("Option<{}>", r(t)),
            Result(a, b) => format!("Result<{}, {}>", r(a), r(b)),
            Box(t) => format!("Box<{}>", r(t)),
            Cow(t) => format!("Cow<'static, {}>", r(t)),
            CowStr => "Cow<'static, str>".into(),
            BTreeMap(a, b) => format!("BTreeMap<{}, {}>", r(a), r(b)),
            BTreeSet(t) => format!("BTreeSet<{}>", r(t)),
            BinaryHeap(t) => format!("BinaryHeap<{}>", r(t)),
            Range(t) => format!("Range<{}>", r(t)),
            RangeInclusive(t) => format!("RangeInclusive<{}>", r(t)),
            NonZero(p) => p.nonzero_name().to_string(),
            Duration => "Duration".into(),
            Phantom(t) => format!("PhantomData<{}>", r(t)),
            Compact(t) => format!("Compact<{}>", r(t)),
            BitVec(s, msb) => format!("BitVec<{}, {}>", s.name(), if *msb { "Msb0" } else { "Lsb0" }),
            BitVecOf(i, msb) => format!("BitVec<{}, {}>", r(&Param(*i)), if *msb { "Msb0" } else { "Lsb0" }),
            Alias(n, _) => format!("{}::{n}", self.root_path()),
            Slice(t) => format!("[{}]", r(t)),
            StrSlice => "str".into(),
        }
    }

    /// The `type_name` the `TypeInfo` derive records for a field of definition `ctx`.
    pub fn type_name(&self, ty: &Ty, ctx: usize) -> String {
        let src = self.render_ty(ty, Some(ctx));
        let parsed: syn::Type = syn::parse_str(&src).unwrap_or_else(|e| panic!("render {src}: {e}"));
        clean_type_string(&quote::quote!(#parsed).to_string())
    }

    /// All aliases mentioned anywhere, name -> expansion.
    pub fn aliases(&self) -> std::collections::BTreeMap<String, Ty> {
        let mut out = std::collections::BTreeMap::new();
        let mut visit = |t: &Ty| {
            t.walk(&mut |t| {
                if let Ty::Alias(n, inner) = t {
                    out.insert(n.clone(), (**inner).clone());
                }
            })
        };
        for d in &self.defs {
            match &d.kind {
                DefKind::Struct(_, fs) => fs.iter().for_each(|f| visit(&f.ty)),
                DefKind::Enum(vs) => vs.iter().for_each(|v| v.fields.iter().for_each(|f| visit(&f.ty))),
            }
        }
        for r in &self.roots {
            visit(r)
        }
        for m in &self.markers {
            m.assoc.iter().for_each(&mut visit)
        }
        out
    }

    /// Full Rust source of the program (for the compiled corpus). `derives` e.g. "TypeInfo, Encode, Decode".
    pub fn render_source(&self, derives: &str) -> String {
        let mut out = String::new();
        out.push_str("#![allow(dead_code, unused_imports, non_camel_case_types, clippy::all)]\n");
        out.push_str(&self.render_body(derives, true));
        out
    }

    /// The program without the crate-level attribute; with a prefix everything is wrapped in
    /// `pub mod <prefix> { .. }`.
    pub fn render_body(&self, derives: &str, wrap: bool) -> String {
        let mut out = String::new();
        for seg in self.prefix.iter().filter(|_| wrap) {
            out.push_str(&format!("pub mod {seg} {{\n"));
        }
        let uses = "use scale_info::TypeInfo; use parity_scale_codec::{Encode, Decode, Compact}; use std::collections::{BTreeMap, BTreeSet, BinaryHeap, VecDeque}; use std::borrow::Cow; use core::ops::{Range, RangeInclusive}; use core::num::*; use core::time::Duration; use core::marker::PhantomData; use bitvec::{vec::BitVec, order::{Lsb0, Msb0}};\n";
        out.push_str(uses);
        out.push_str("pub trait Cfg { ");
        for k in 0..NASSOC {
            out.push_str(&format!("type A{k}; "));
        }
        out.push_str("}\n");
        for (j, m) in self.markers.iter().enumerate() {
            out.push_str(&format!(
                "#[derive({derives}, Clone, PartialEq, Eq, PartialOrd, Ord, Debug)] pub struct M{j};\nimpl Cfg for M{j} {{ "
            ));
            for (k, a) in m.assoc.iter().enumerate() {
                out.push_str(&format!("type A{k} = {}; ", self.render_ty(a, None)));
            }
            out.push_str("}\n");
        }
        for (n, t) in self.aliases() {
            out.push_str(&format!("pub type {n} = {};\n", self.render_ty(&t, None)));
        }
        // group defs by module (below the prefix)
        #[derive(Default)]
        struct Mod {
            children: std::collections::BTreeMap<String, Mod>,
            defs: Vec<usize>,
        }
        let mut root = Mod::default();
        for (i, d) in self.defs.iter().enumerate() {
            let mut m = &mut root;
            for seg in d.module.iter().skip(self.prefix.len()) {
                m = m.children.entry(seg.clone()).or_default();
            }
            m.defs.push(i);
        }
        fn emit(p: &Program, m: &Mod, out: &mut String, derives: &str, uses: &str) {
            for &i in &m.defs {
                out.push_str(&p.render_def(i, derives));
            }
            for (name, c) in &m.children {
                out.push_str(&format!("pub mod {name} {{\n{uses}use {}::Cfg;\n", p.root_path()));
                emit(p, c, out, derives, uses);
                out.push_str("}\n");
            }
        }
        emit(self, &root, &mut out, derives, uses);
        for _ in self.prefix.iter().filter(|_| wrap) {
            out.push_str("}\n");
        }
        out
    }

    pub fn render_def(&self, i: usize, derives: &str) -> String {
        let d = &self.defs[i];
        let mut out = String::new();
        for l in &d.docs {
            out.push_str(&format!("/// {l}\n"));
        }
        out.push_str(&format!("#[derive({derives})]\n"));
        let skipped: Vec<&str> = d.params.iter().filter(|p| p.skipped).map(|p| p.name.as_str()).collect();
        if !skipped.is_empty() {
            out.push_str(&format!("#[scale_info(skip_type_params({}))]\n", skipped.join(", ")));
        }
        let generics = if d.params.is_empty() {
            String::new()
        } else {
            format!(
                "<{}>",
                d.params
                    .iter()
                    .map(|p| if p.cfg { format!("{}: Cfg", p.name) } else { p.name.clone() })
                    .collect::<Vec<_>>()
                    .join(", ")
            )
        };
        let fields = |style: Style, fs: &[FieldDecl], vis: &str| -> String {
            let one = |f: &FieldDecl| {
                let mut s = String::new();
                for l in &f.docs {
                    s.push_str(&format!("/// {l}\n"));
                }
                if f.compact {
                    s.push_str("#[codec(compact)] ");
                }
                if f.skip {
                    s.push_str("#[codec(skip)] ");
                }
                match &f.name {
                    Some(n) => s.push_str(&format!("{vis}{n}: {}", self.render_ty(&f.ty, Some(i)))),
                    None => s.push_str(&format!("{vis}{}", self.render_ty(&f.ty, Some(i)))),
                }
                s
            };
            match style {
                Style::Unit => String::new(),
                Style::Named => format!(" {{ {} }}", fs.iter().map(one).collect::<Vec<_>>().join(", ")),
                Style::Unnamed => format!("({})", fs.iter().map(one).collect::<Vec<_>>().join(", ")),
            }
        };
        match &d.kind {
            DefKind::Struct(style, fs) => {
                out.push_str(&format!("pub struct {}{}{}", d.name, generics, fields(*style, fs, "pub ")));
                if *style != Style::Named {
                    out.push(';');
                }
                out.push('\n');
            }
            DefKind::Enum(vs) => {
                out.push_str(&format!("pub enum {}{} {{\n", d.name, generics));
                for v in vs {
                    for l in &v.docs {
                        out.push_str(&format!("/// {l}\n"));
                    }
                    if let Some(ix) = v.index {
                        out.push_str(&format!("#[codec(index = {ix})] "));
                    }
                    out.push_str(&format!("{}{},\n", v.name, fields(v.style, &v.fields, "")));
                }
                out.push_str("}\n");
            }
        }
        out
    }
}

/// Exactly scale-info-derive 2.11.5's `clean_type_string`.
pub fn clean_type_string(input: &str) -> String {
    input
        .replace(" ::", "::")
        .replace(":: ", "::")
        .replace(" ,", ",")
        .replace(" ;", ";")
        .replace(" [", "[")
        .replace("[ ", "[")
        .replace(" ]", "]")
        .replace(" (", "(")
        .replace(",(", ", (")
        .replace("( ", "(")
        .replace(" )", ")")
        .replace(" <", "<")
        .replace("< ", "<")
        .replace(" >", ">")
        .replace("& \'", "&'")
}

// ------------------------------------------------------------------------------------------------
// Random program generator
// ------------------------------------------------------------------------------------------------

#[derive(Clone, Debug)]
pub struct GenCfg {
    pub max_defs: usize,
    pub max_params: usize,
    pub max_fields: usize,
    pub max_variants: usize,
    pub max_depth: usize,
    pub max_insts: usize,
    /// probability that a generic def uses associated types
    pub p_assoc: f64,
    pub p_skip_param: f64,
    pub allow_bitvec: bool,
    pub allow_alias: bool,
    pub allow_phantom: bool,
    /// `char` has no Encode/Decode impl in parity-scale-codec 3.6 (artifact tier switches it off)
    pub allow_char: bool,
    /// generic definitions may refer to themselves / later definitions (recursion through a
    /// generic type defeats the bounds parity-scale-codec's derive generates; artifact tier: off)
    pub generic_recursion: bool,
    /// PhantomData below Vec/Option/... (registers a PhantomData entry; known generator panic)
    pub nested_phantom: bool,
    pub allow_duration: bool,
    pub allow_compact: bool,
    /// `Compact<()>` (legal, zero bytes; outside the class of the example-value property)
    pub compact_unit: bool,
    pub allow_codec_skip: bool,
    /// few names, sibling names Foo/Foo1/Foo11
    pub hostile_names: bool,
    /// `Cow` around user-defined types
    pub cow_def: bool,
    /// doc blocks that start with / consist of blank lines, padded lines
    pub odd_docs: bool,
    /// bit sequences whose store is a type parameter
    pub bitvec_param: bool,
    pub docs: bool,
}

impl Default for GenCfg {
    fn default() -> Self {
        GenCfg {
            max_defs: 8,
            max_params: 3,
            max_fields: 5,
            max_variants: 5,
            max_depth: 3,
            max_insts: 4,
            p_assoc: 0.15,
            p_skip_param: 0.15,
            allow_bitvec: true,
            allow_alias: false,
            allow_phantom: true,
            allow_char: true,
            generic_recursion: true,
            nested_phantom: false,
            allow_duration: true,
            allow_compact: true,
            compact_unit: false,
            allow_codec_skip: true,
            hostile_names: false,
            cow_def: true,
            odd_docs: true,
            bitvec_param: true,
            docs: true,
        }
    }
}

const FIELD_NAMES: [&str; 12] = ["a", "b", "c", "d", "e", "f", "g", "h", "value", "inner", "data", "next"];
const DEF_NAMES: [&str; 14] = [
    "Foo", "Bar", "Baz", "Qux", "Header", "Call", "Event", "Error", "Info", "Node", "Leaf", "Pair", "Wrap", "Item",
];
const HOSTILE_DEF_NAMES: [&str; 6] = ["Foo", "Foo1", "Foo2", "Foo11", "Foo12", "Bar"];
const MOD_NAMES: [&str; 6] = ["a", "b", "pallet", "runtime", "v1", "v2"];
const VARIANT_NAMES: [&str; 10] = ["A", "B", "C", "D", "E", "None", "Some", "Set", "Transfer", "Other"];
const PARAM_NAMES: [&str; 4] = ["T", "U", "V", "W"];

pub struct ProgGen<'r, R: Rng> {
    pub rng: &'r mut R,
    pub cfg: GenCfg,
}

struct TyCtx<'a> {
    /// index of the def being generated
    me: usize,
    params: &'a [ParamDecl],
    /// may only refer to defs < me freely; defs >= me only under heap
    ndefs_planned: usize,
    /// arity of every planned def
    arities: &'a [usize],
    cfg_params: &'a [Vec<bool>],
    uint_params: &'a [Vec<bool>],
}

impl<'r, R: Rng> ProgGen<'r, R> {
    pub fn new(rng: &'r mut R, cfg: GenCfg) -> Self {
        ProgGen { rng, cfg }
    }

    fn chance(&mut self, p: f64) -> bool {
        self.rng.gen_bool(p.clamp(0.0, 1.0))
    }

    fn prim(&mut self) -> Prim {
        loop {
            let p = *Prim::ALL.choose(self.rng).unwrap();
            if p != Prim::Char || self.cfg.allow_char {
                return p;
            }
        }
    }

    /// A closed type without user defs: used for marker assoc types, map keys etc.
    fn simple_closed(&mut self, ord: bool) -> Ty {
        match self.rng.gen_range(0..6) {
            0 if !ord => Ty::Vec(Ty::Prim(self.prim()).b()),
            1 => Ty::Str,
            2 if !ord => Ty::Option(Ty::Prim(self.prim()).b()),
            3 => Ty::Tuple(vec![Ty::Prim(self.prim()), Ty::Prim(self.prim())]),
            _ => Ty::Prim(self.prim()),
        }
    }

    /// Random field type. `heap`: we are below a heap indirection (forward/self references allowed).
    fn gen_ty(&mut self, cx: &TyCtx, depth: usize, heap: bool) -> Ty {
        let leaf = depth >= self.cfg.max_depth;
        // parameters are attractive: generic recovery is a main target
        // a skipped parameter without a Cfg bound can only live in PhantomData (Rust would reject
        // the derive otherwise)
        let usable: Vec<usize> =
            (0..cx.params.len()).filter(|&i| cx.params[i].cfg || !cx.params[i].skipped).collect();
        if !usable.is_empty() && self.chance(if leaf { 0.45 } else { 0.25 }) {
            let i = *usable.choose(self.rng).unwrap();
            if cx.params[i].cfg {
                return Ty::Assoc(i, self.rng.gen_range(0..NASSOC));
            }
            return Ty::Param(i);
        }
        if leaf {
            return match self.rng.gen_range(0..10) {
                0 => Ty::Str,
                1 => Ty::NonZero(*Prim::INTS.choose(self.rng).unwrap()),
                2 if self.cfg.allow_duration => Ty::Duration,
                _ => Ty::Prim(self.prim()),
            };
        }
        let d = depth + 1;
        match self.rng.gen_range(0..24) {
            0 | 1 => Ty::Vec(self.gen_ty(cx, d, true).b()),
            2 => Ty::VecDeque(self.gen_ty(cx, d, true).b()),
            3 => {
                let n = *[0u32, 1, 2, 3, 4, 8, 32, 33].choose(self.rng).unwrap();
                Ty::Array(self.gen_ty(cx, d, heap).b(), n)
            }
            4 | 5 => {
                let n = *[0usize, 1, 2, 2, 3, 4].choose(self.rng).unwrap();
                let mut elems: std::vec::Vec<Ty> = (0..n).map(|_| self.gen_ty(cx, d, heap)).collect();
                if self.cfg.allow_phantom && !cx.params.is_empty() && self.chance(0.1) {
                    // PhantomData as a tuple element is filtered out by scale-info
                    let i = self.rng.gen_range(0..cx.params.len());
                    let at = self.rng.gen_range(0..=elems.len());
                    elems.insert(at, Ty::Phantom(Ty::Param(i).b()));
                }
                Ty::Tuple(elems)
            }
            6 | 7 => Ty::Option(self.gen_ty(cx, d, heap).b()),
            8 => Ty::Result(self.gen_ty(cx, d, heap).b(), self.gen_ty(cx, d, heap).b()),
            9 => Ty::Box(self.gen_ty(cx, d, true).b()),
            10 => match self.rng.gen_range(0..if self.cfg.cow_def { 5 } else { 3 }) {
                0 => Ty::CowStr,
                1 => Ty::Cow(Ty::Prim(self.prim()).b()),
                2 => Ty::Cow(Ty::Vec(Ty::Prim(self.prim()).b()).b()),
                // `Cow<'static, Foo<..>>` (needs `Foo: Clone` in real source, hence not in compiled corpora)
                _ => Ty::Cow(self.gen_def_ref(cx, d, false).b()),
            },
            11 => Ty::BTreeMap(self.simple_closed(true).b(), self.gen_ty(cx, d, true).b()),
            12 => Ty::BTreeSet(self.simple_closed(true).b()),
            13 => Ty::BinaryHeap(self.simple_closed(true).b()),
            14 => {
                let p = *Prim::INTS.choose(self.rng).unwrap();
                if self.chance(0.5) {
                    Ty::Range(Ty::Prim(p).b())
                } else {
                    Ty::RangeInclusive(Ty::Prim(p).b())
                }
            }
            15 if self.cfg.allow_compact => {
                let uints: std::vec::Vec<usize> = (0..cx.params.len()).filter(|&i| cx.params[i].uint).collect();
                if !uints.is_empty() && self.chance(0.6) {
                    Ty::Compact(Ty::Param(*uints.choose(self.rng).unwrap()).b())
                } else if self.cfg.compact_unit && self.chance(0.1) {
                    Ty::Compact(Ty::Tuple(vec![]).b())
                } else {
                    Ty::Compact(Ty::Prim(*Prim::UINTS.choose(self.rng).unwrap()).b())
                }
            }
            16 if self.cfg.allow_bitvec && self.cfg.bitvec_param && cx.params.iter().any(|p| p.uint) && self.chance(0.4) => {
                let uints: std::vec::Vec<usize> = (0..cx.params.len()).filter(|&i| cx.params[i].uint).collect();
                Ty::BitVecOf(*uints.choose(self.rng).unwrap(), self.chance(0.5))
            }
            16 if self.cfg.allow_bitvec => Ty::BitVec(
                *[Prim::U8, Prim::U16, Prim::U32, Prim::U64].choose(self.rng).unwrap(),
                self.chance(0.5),
            ),
            17 if self.cfg.allow_phantom && !cx.params.is_empty() && (depth == 0 || self.cfg.nested_phantom) => {
                let i = self.rng.gen_range(0..cx.params.len());
                Ty::Phantom(Ty::Param(i).b())
            }
            18..=21 => self.gen_def_ref(cx, d, heap),
            22 if self.cfg.allow_alias => {
                if cx.params.is_empty() && self.chance(0.5) {
                    // `type BoxedN = Box<Self>`: the Box is invisible in the recorded type name
                    Ty::Option(
                        Ty::Alias(format!("Boxed{}", cx.me), Ty::Box(Ty::Def(cx.me, vec![]).b()).b()).b(),
                    )
                } else {
                    Ty::Alias("Word".into(), Ty::Prim(Prim::U32).b())
                }
            }
            _ => self.gen_ty(cx, self.cfg.max_depth, heap),
        }
    }

    fn gen_def_ref(&mut self, cx: &TyCtx, depth: usize, heap: bool) -> Ty {
        // earlier defs: any arguments. self / later defs: only below heap; self with identical
        // parameters, later defs only when non-generic (no polymorphic recursion).
        let mut cands: Vec<usize> = (0..cx.me).collect();
        if heap && (cx.params.is_empty() || self.cfg.generic_recursion) {
            cands.push(cx.me);
            for j in cx.me + 1..cx.ndefs_planned {
                if cx.arities[j] == 0 {
                    cands.push(j);
                }
            }
        }
        if cands.is_empty() {
            return Ty::Prim(self.prim());
        }
        let d = *cands.choose(self.rng).unwrap();
        if d == cx.me {
            return Ty::Def(d, (0..cx.params.len()).map(Ty::Param).collect());
        }
        let mut args = Vec::new();
        for i in 0..cx.arities[d] {
            if cx.cfg_params[d][i] {
                // needs something implementing Cfg: one of our own cfg params or a marker
                let own: Vec<usize> =
                    cx.params.iter().enumerate().filter(|(_, p)| p.cfg && !p.skipped).map(|(i, _)| i).collect();
                if !own.is_empty() && self.chance(0.5) {
                    args.push(Ty::Param(*own.choose(self.rng).unwrap()));
                } else {
                    args.push(Ty::Marker(self.rng.gen_range(0..2)));
                }
            } else if cx.uint_params[d][i] {
                let own: std::vec::Vec<usize> = (0..cx.params.len()).filter(|&k| cx.params[k].uint).collect();
                if !own.is_empty() && self.chance(0.5) {
                    args.push(Ty::Param(*own.choose(self.rng).unwrap()));
                } else {
                    args.push(Ty::Prim(*Prim::UINTS[..4].choose(self.rng).unwrap()));
                }
            } else {
                args.push(self.gen_ty(cx, depth.max(self.cfg.max_depth.saturating_sub(1)), heap));
            }
        }
        Ty::Def(d, args)
    }

    fn gen_fields(&mut self, cx: &TyCtx, style: Style, used_param_direct: &mut Vec<bool>) -> Vec<FieldDecl> {
        if style == Style::Unit {
            return vec![];
        }
        let n = self.rng.gen_range(1..=self.cfg.max_fields);
        let mut names: Vec<&str> = FIELD_NAMES.to_vec();
        names.shuffle(self.rng);
        let mut earlier: Vec<Ty> = Vec::new();
        (0..n)
            .map(|i| {
                let mut ty = self.gen_ty(cx, 0, false);
                // now and then the type of an earlier member of the same list again, as it is or
                // boxed (one type id, two different field renderings)
                if !earlier.is_empty() && self.chance(0.1) {
                    let prev = earlier.choose(self.rng).unwrap().clone();
                    if !matches!(prev, Ty::Phantom(_)) {
                        ty = if self.chance(0.6) && !matches!(prev, Ty::Box(_)) { Ty::Box(prev.b()) } else { prev };
                    }
                }
                earlier.push(ty.clone());
                let mut compact = false;
                if self.cfg.allow_compact && self.chance(0.08) {
                    let uints: std::vec::Vec<usize> = (0..cx.params.len()).filter(|&i| cx.params[i].uint).collect();
                    ty = if !uints.is_empty() && self.chance(0.6) {
                        Ty::Param(*uints.choose(self.rng).unwrap())
                    } else {
                        Ty::Prim(*Prim::UINTS.choose(self.rng).unwrap())
                    };
                    compact = true;
                }
                if let Ty::Param(i) = ty {
                    used_param_direct[i] = true;
                }
                let skip = self.cfg.allow_codec_skip && !compact && !ty.mentions_param() && self.chance(0.04);
                let skip = skip && is_defaultable(&ty);
                FieldDecl {
                    name: (style == Style::Named).then(|| names[i].to_string()),
                    ty,
                    compact,
                    skip,
                    docs: if self.cfg.docs && self.chance(0.1) { vec!["field doc".into()] } else { vec![] },
                }
            })
            .collect()
    }

    pub fn gen_program(&mut self) -> Program {
        let ndefs = self.rng.gen_range(1..=self.cfg.max_defs);
        // plan names, modules, arities first (forward references need arities)
        let name_pool: &[&str] = if self.cfg.hostile_names { &HOSTILE_DEF_NAMES } else { &DEF_NAMES };
        let mut taken = std::collections::BTreeSet::new();
        let mut heads = Vec::new();
        for _ in 0..ndefs {
            for _try in 0..50 {
                let depth = *[0usize, 1, 1, 2, 3].choose(self.rng).unwrap();
                let module: Vec<String> =
                    (0..depth).map(|_| MOD_NAMES.choose(self.rng).unwrap().to_string()).collect();
                let name = name_pool.choose(self.rng).unwrap().to_string();
                // a module and a type of one name in one module are fine in Rust (different
                // namespaces) but the same (module,name) twice is not
                if taken.insert((module.clone(), name.clone())) {
                    heads.push((module, name));
                    break;
                }
            }
        }
        let ndefs = heads.len();
        let mut params_all: Vec<Vec<ParamDecl>> = Vec::new();
        for _ in 0..ndefs {
            // (the longer list is used only on request, so that every other workload keeps its stream)
            let np = if self.cfg.max_params >= 4 {
                *[0usize, 0, 1, 2, 3, 4, 4, 4].choose(self.rng).unwrap()
            } else {
                *[0usize, 0, 0, 1, 1, 2, 3].choose(self.rng).unwrap().min(&self.cfg.max_params)
            };
            let assoc_def = np > 0 && self.chance(self.cfg.p_assoc);
            let params = (0..np)
                .map(|i| {
                    let cfg = assoc_def && (i == 0 || self.chance(0.3));
                    let skipped = if cfg { self.chance(0.5) } else { self.chance(self.cfg.p_skip_param) };
                    ParamDecl {
                        name: PARAM_NAMES[i].to_string(),
                        skipped,
                        cfg,
                        uint: !cfg && !skipped && self.cfg.allow_compact && self.chance(0.15),
                    }
                })
                .collect();
            params_all.push(params);
        }
        let arities: Vec<usize> = params_all.iter().map(|p| p.len()).collect();
        let cfg_params: Vec<Vec<bool>> = params_all.iter().map(|p| p.iter().map(|q| q.cfg).collect()).collect();
        let uint_params: Vec<Vec<bool>> = params_all.iter().map(|p| p.iter().map(|q| q.uint).collect()).collect();
        let markers = vec![
            Marker { assoc: (0..NASSOC).map(|_| self.simple_closed(false)).collect() },
            Marker { assoc: (0..NASSOC).map(|_| self.simple_closed(false)).collect() },
        ];
        let mut defs = Vec::new();
        for me in 0..ndefs {
            let params = params_all[me].clone();
            let cx = TyCtx { me, params: &params, ndefs_planned: ndefs, arities: &arities, cfg_params: &cfg_params, uint_params: &uint_params };
            let mut direct = vec![false; params.len()];
            let kind = if self.chance(0.6) {
                let style = *[Style::Named, Style::Named, Style::Unnamed, Style::Unit].choose(self.rng).unwrap();
                DefKind::Struct(style, self.gen_fields(&cx, style, &mut direct))
            } else {
                let nv = self.rng.gen_range(0..=self.cfg.max_variants);
                let mut vnames: Vec<&str> = VARIANT_NAMES.to_vec();
                vnames.shuffle(self.rng);
                let explicit = self.chance(0.3);
                let mut idxs: Vec<u8> = (0..=255u8).collect();
                idxs.shuffle(self.rng);
                let vs = (0..nv)
                    .map(|i| {
                        let style = *[Style::Named, Style::Unnamed, Style::Unit].choose(self.rng).unwrap();
                        VariantDecl {
                            name: vnames[i].to_string(),
                            index: explicit.then(|| idxs[i]),
                            style,
                            fields: self.gen_fields(&cx, style, &mut direct),
                            docs: if self.cfg.docs && self.chance(0.2) {
                                if self.cfg.odd_docs && self.chance(0.3) {
                                    vec!["".into(), " variant doc after a blank first line".into()]
                                } else {
                                    vec!["variant doc".into(), "second line".into()]
                                }
                            } else {
                                vec![]
                            },
                        }
                    })
                    .collect();
                DefKind::Enum(vs)
            };
            let mut def = Def {
                module: heads[me].0.clone(),
                name: heads[me].1.clone(),
                params,
                kind,
                docs: if self.cfg.docs && self.chance(0.3) {
                    if self.cfg.odd_docs && self.chance(0.35) {
                        // blocks as `/// ` + blank lines leave them in metadata
                        match self.rng.gen_range(0..4) {
                            0 => vec!["".into(), format!(" Summary of {}", heads[me].1)],
                            1 => vec!["".into()],
                            2 => vec![format!(" Docs of {} ", heads[me].1), "".into(), " after a blank line".into()],
                            _ => vec![" ".into(), "x".into()],
                        }
                    } else {
                        vec![format!("Docs of {}", heads[me].1)]
                    }
                } else {
                    vec![]
                },
            };
            make_compilable(&mut def, me);
            defs.push(def);
        }
        let mut prog = Program { krate: "krate".into(), defs, markers, roots: vec![], prefix: vec![] };
        // instantiation set
        let mut roots = Vec::new();
        let order: Vec<usize> = {
            let mut o: Vec<usize> = (0..ndefs).collect();
            o.shuffle(self.rng);
            o
        };
        for d in order {
            let np = prog.defs[d].params.len();
            let n_inst = if np == 0 { 1 } else { self.rng.gen_range(1..=self.cfg.max_insts) };
            for _ in 0..n_inst {
                let args: Vec<Ty> = (0..np)
                    .map(|i| {
                        if prog.defs[d].params[i].cfg {
                            Ty::Marker(self.rng.gen_range(0..2))
                        } else if prog.defs[d].params[i].uint {
                            Ty::Prim(*Prim::UINTS[..4].choose(self.rng).unwrap())
                        } else {
                            self.closed_arg(&prog, d)
                        }
                    })
                    .collect();
                roots.push(Ty::Def(d, args));
            }
        }
        prog.roots = roots;
        prog
    }

    /// Closed argument for an instantiation: primitives, strings, small containers, earlier
    /// non-generic defs.
    fn closed_arg(&mut self, prog: &Program, below: usize) -> Ty {
        match self.rng.gen_range(0..8) {
            0 => Ty::Str,
            1 => Ty::Vec(Ty::Prim(self.prim()).b()),
            2 => Ty::Option(Ty::Prim(self.prim()).b()),
            3 => Ty::Tuple(vec![Ty::Prim(self.prim()), Ty::Str]),
            4 | 5 => {
                let c: Vec<usize> = (0..below).filter(|&j| prog.defs[j].params.is_empty()).collect();
                match c.choose(self.rng) {
                    Some(&j) => Ty::Def(j, vec![]),
                    None => Ty::Prim(self.prim()),
                }
            }
            _ => Ty::Prim(self.prim()),
        }
    }
}

/// `#[codec(skip)]` needs `Default`; keep to types that have it.
fn is_defaultable(t: &Ty) -> bool {
    matches!(t, Ty::Prim(_) | Ty::Str | Ty::Vec(_) | Ty::Option(_))
}

/// Rust rejects unused type parameters (E0392): add a PhantomData field for parameters that no
/// field mentions — exactly what a human author has to do.
pub fn make_compilable(def: &mut Def, me: usize) {
    // drop markers added by an earlier call (the definition may have been edited since)
    match &mut def.kind {
        DefKind::Struct(_, fs) => fs.retain(|f| !(f.name.as_deref() == Some("_marker") && matches!(f.ty, Ty::Phantom(_)))),
        DefKind::Enum(vs) => vs.retain(|v| v.name != "__Phantom"),
    }
    let np = def.params.len();
    if np == 0 {
        return;
    }
    let mut used = vec![false; np];
    // a parameter mentioned only through the definition's own recursion does not count as used
    // (rustc: "type parameter is only used recursively")
    fn mark_in(t: &Ty, me: usize, used: &mut Vec<bool>) {
        use Ty::*;
        match t {
            Param(i) | Assoc(i, _) | BitVecOf(i, _) => used[*i] = true,
            Def(d, _) if *d == me => {}
            Def(_, a) | Tuple(a) => a.iter().for_each(|x| mark_in(x, me, used)),
            Vec(x) | VecDeque(x) | Array(x, _) | Option(x) | Box(x) | Cow(x) | BTreeSet(x) | BinaryHeap(x) | Range(x) | RangeInclusive(x) | Phantom(x) | Compact(x) | Alias(_, x) | Slice(x) => mark_in(x, me, used),
            Result(a, b) | BTreeMap(a, b) => {
                mark_in(a, me, used);
                mark_in(b, me, used)
            }
            _ => {}
        }
    }
    let mut mark = |t: &Ty| mark_in(t, me, &mut used);
    match &def.kind {
        DefKind::Struct(_, fs) => fs.iter().for_each(|f| mark(&f.ty)),
        DefKind::Enum(vs) => vs.iter().for_each(|v| v.fields.iter().for_each(|f| mark(&f.ty))),
    }
    let unused: Vec<usize> = (0..np).filter(|i| !used[*i]).collect();
    if unused.is_empty() {
        return;
    }
    let pty = if unused.len() == 1 {
        Ty::Phantom(Ty::Param(unused[0]).b())
    } else {
        Ty::Phantom(Ty::Tuple(unused.iter().map(|&i| Ty::Param(i)).collect()).b())
    };
    let mk = |named: bool| FieldDecl {
        name: named.then(|| "_marker".to_string()),
        ty: pty.clone(),
        compact: false,
        skip: false,
        docs: vec![],
    };
    match &mut def.kind {
        DefKind::Struct(style, fs) => match style {
            Style::Named => fs.push(mk(true)),
            Style::Unnamed => fs.push(mk(false)),
            Style::Unit => {
                *style = Style::Unnamed;
                fs.push(mk(false));
            }
        },
        DefKind::Enum(vs) => vs.push(VariantDecl {
            name: "__Phantom".into(),
            index: None,
            style: Style::Unnamed,
            fields: vec![mk(false)],
            docs: vec![],
        }),
    }
    // an explicit index could collide with the implicit index of the appended variant
    if let DefKind::Enum(vs) = &mut def.kind {
        let n = vs.len();
        let last_implicit = (n - 1) as u8;
        if vs[..n - 1].iter().any(|v| v.index == Some(last_implicit))
            || vs[..n - 1].iter().enumerate().any(|(i, v)| v.index.is_none() && i as u8 == last_implicit)
        {
            let used: std::collections::BTreeSet<u8> =
                vs[..n - 1].iter().enumerate().map(|(i, v)| v.index.unwrap_or(i as u8)).collect();
            let free = (0..=255u8).rev().find(|x| !used.contains(x)).unwrap();
            vs[n - 1].index = Some(free);
        }
    }
}

/// Hand-written programs with recursive types that can terminate (an enum with a leaf variant, an
/// `Option<Box<..>>`), referenced several times from one root and through containers: the shapes
/// on which recursion protection that only works on the *first* visit of a type shows.
pub fn recursive_gallery() -> Vec<Program> {
    let nf = |n: &str, t: Ty| FieldDecl { name: Some(n.into()), ty: t, compact: false, skip: false, docs: vec![] };
    let uf = |t: Ty| FieldDecl { name: None, ty: t, compact: false, skip: false, docs: vec![] };
    let var = |n: &str, fields: Vec<FieldDecl>| VariantDecl {
        name: n.into(),
        index: None,
        style: if fields.is_empty() { Style::Unit } else if fields[0].name.is_some() { Style::Named } else { Style::Unnamed },
        fields,
        docs: vec![],
    };
    let def = |name: &str, params: Vec<&str>, kind: DefKind| Def {
        module: vec!["rec".into()],
        name: name.into(),
        params: params.into_iter().map(|p| ParamDecl { name: p.into(), skipped: false, cfg: false, uint: false }).collect(),
        kind,
        docs: vec![],
    };
    let prog = |defs: Vec<Def>, roots: Vec<Ty>| Program { krate: "krate".into(), defs, markers: vec![], roots, prefix: vec![] };
    let d = |i: usize| Ty::Def(i, vec![]);
    let bx = |t: Ty| Ty::Box(t.b());
    vec![
        // a ternary tree, used twice
        prog(
            vec![
                def("Tree", vec![], DefKind::Enum(vec![var("Leaf", vec![]), var("Node", vec![uf(bx(d(0))), uf(bx(d(0))), uf(bx(d(0)))])])),
                def("Forest", vec![], DefKind::Struct(Style::Named, vec![nf("first", d(0)), nf("second", d(0))])),
            ],
            vec![d(1)],
        ),
        // a list, inside a Vec and once more directly
        prog(
            vec![
                def("List", vec![], DefKind::Enum(vec![var("Nil", vec![]), var("Cons", vec![uf(Ty::Prim(Prim::U8)), uf(bx(d(0)))])])),
                def("Holder", vec![], DefKind::Struct(Style::Named, vec![nf("xs", Ty::Vec(d(0).b())), nf("again", d(0)), nf("arr", Ty::Array(d(0).b(), 3))])),
            ],
            vec![d(1)],
        ),
        // a binary node terminating through Option
        prog(
            vec![
                def("Node", vec![], DefKind::Struct(Style::Named, vec![nf("l", Ty::Option(bx(d(0)).b())), nf("r", Ty::Option(bx(d(0)).b())), nf("v", Ty::Prim(Prim::U16))])),
                def("Two", vec![], DefKind::Struct(Style::Unnamed, vec![uf(d(0)), uf(d(0)), uf(Ty::Tuple(vec![d(0), d(0)]))])),
            ],
            vec![d(1)],
        ),
        // mutual recursion through a Vec and two optional boxes
        prog(
            vec![
                def("A", vec![], DefKind::Struct(Style::Named, vec![nf("bs", Ty::Vec(d(1).b()))])),
                def("B", vec![], DefKind::Enum(vec![var("Stop", vec![]), var("Go", vec![nf("x", bx(d(0))), nf("y", bx(d(0)))])])),
                def("Both", vec![], DefKind::Struct(Style::Named, vec![nf("a1", d(0)), nf("a2", d(0)), nf("b", d(1))])),
            ],
            vec![d(2)],
        ),
        // generic recursion, two uses of one instantiation
        prog(
            vec![
                def(
                    "GTree",
                    vec!["T"],
                    DefKind::Enum(vec![var("Leaf", vec![uf(Ty::Param(0))]), var("Node", vec![uf(Ty::Vec(Ty::Def(0, vec![Ty::Param(0)]).b())), uf(bx(Ty::Def(0, vec![Ty::Param(0)])))])]),
                ),
                def("Wrap", vec![], DefKind::Struct(Style::Named, vec![nf("a", Ty::Def(0, vec![Ty::Prim(Prim::U8)])), nf("b", Ty::Def(0, vec![Ty::Prim(Prim::U8)])), nf("c", Ty::Def(0, vec![Ty::Str]))])),
            ],
            vec![d(1)],
        ),
    ]
}


/// Recursion whose only `Box` is an ARGUMENT of a generated generic type that stores its argument
/// inline (`Slot<Box<Node>>` with `Slot<T> { value: Option<T> }`): the heap indirection of the
/// cycle lives in the type name of the field, nowhere in the registry's graph.
pub fn inline_wrapper_gallery() -> Vec<Program> {
    let nf = |n: &str, t: Ty| FieldDecl { name: Some(n.into()), ty: t, compact: false, skip: false, docs: vec![] };
    let uf = |t: Ty| FieldDecl { name: None, ty: t, compact: false, skip: false, docs: vec![] };
    let pd = |n: &str| ParamDecl { name: n.into(), skipped: false, cfg: false, uint: false };
    let def = |name: &str, params: Vec<ParamDecl>, kind: DefKind| Def { module: vec!["w".into()], name: name.into(), params, kind, docs: vec![] };
    let bx = |t: Ty| Ty::Box(t.b());
    vec![
        Program {
            krate: "krate".into(),
            defs: vec![
                def("Slot", vec![pd("T")], DefKind::Struct(Style::Named, vec![nf("value", Ty::Option(Ty::Param(0).b()))])),
                def("Node", vec![], DefKind::Struct(Style::Named, vec![nf("next", Ty::Def(0, vec![bx(Ty::Def(1, vec![]))])), nf("v", Ty::Prim(Prim::U8))])),
            ],
            markers: vec![],
            roots: vec![Ty::Def(1, vec![])],
            prefix: vec![],
        },
        Program {
            krate: "krate".into(),
            defs: vec![
                def("Pair", vec![pd("A"), pd("B")], DefKind::Struct(Style::Unnamed, vec![uf(Ty::Param(0)), uf(Ty::Param(1))])),
                def(
                    "Expr",
                    vec![],
                    DefKind::Enum(vec![
                        VariantDecl { name: "Lit".into(), index: None, style: Style::Unnamed, fields: vec![uf(Ty::Prim(Prim::U32))], docs: vec![] },
                        VariantDecl { name: "Add".into(), index: None, style: Style::Unnamed, fields: vec![uf(Ty::Def(0, vec![bx(Ty::Def(1, vec![])), bx(Ty::Def(1, vec![]))]))], docs: vec![] },
                        VariantDecl { name: "Neg".into(), index: None, style: Style::Named, fields: vec![nf("inner", Ty::Tuple(vec![bx(Ty::Def(1, vec![])), Ty::Prim(Prim::U8)]))], docs: vec![] },
                    ]),
                ),
            ],
            markers: vec![],
            roots: vec![Ty::Def(1, vec![])],
            prefix: vec![],
        },
    ]
}

/// Definitions with four parameters in which ONE member uses two of them while two more stay
/// unused (and sit in a PhantomData member) - struct, tuple struct, enum; the arguments are
/// numbered in rising, falling and mixed order by the order of the roots.
pub fn many_params_gallery() -> Vec<Program> {
    let nf = |n: &str, t: Ty| FieldDecl { name: Some(n.into()), ty: t, compact: false, skip: false, docs: vec![] };
    let uf = |t: Ty| FieldDecl { name: None, ty: t, compact: false, skip: false, docs: vec![] };
    let pd = |n: &str| ParamDecl { name: n.into(), skipped: false, cfg: false, uint: false };
    let def = |name: &str, params: Vec<ParamDecl>, kind: DefKind| Def { module: vec!["m".into()], name: name.into(), params, kind, docs: vec![] };
    let four = || vec![pd("T"), pd("U"), pd("V"), pd("W")];
    let ph = |a: usize, b: usize| Ty::Phantom(Ty::Tuple(vec![Ty::Param(a), Ty::Param(b)]).b());
    let mut out = Vec::new();
    for args in [
        [Prim::U8, Prim::U16, Prim::U32, Prim::U64],
        [Prim::U64, Prim::U32, Prim::U16, Prim::U8],
        [Prim::U16, Prim::U8, Prim::U64, Prim::U32],
    ] {
        let a: Vec<Ty> = args.iter().map(|p| Ty::Prim(*p)).collect();
        out.push(Program {
            krate: "krate".into(),
            defs: vec![
                def("Pair", four(), DefKind::Struct(Style::Named, vec![nf("entry", Ty::Tuple(vec![Ty::Param(0), Ty::Param(1)])), nf("marker", ph(2, 3))])),
                def("Mid", four(), DefKind::Struct(Style::Unnamed, vec![uf(Ty::BTreeMap(Ty::Param(1).b(), Ty::Param(2).b())), uf(ph(0, 3))])),
                def(
                    "Choice",
                    four(),
                    DefKind::Enum(vec![
                        VariantDecl { name: "Both".into(), index: None, style: Style::Unnamed, fields: vec![uf(Ty::Result(Ty::Param(3).b(), Ty::Param(0).b()))], docs: vec![] },
                        VariantDecl { name: "Neither".into(), index: None, style: Style::Unnamed, fields: vec![uf(ph(1, 2))], docs: vec![] },
                    ]),
                ),
            ],
            markers: vec![],
            roots: vec![Ty::Def(0, a.clone()), Ty::Def(1, a.clone()), Ty::Def(2, a)],
            prefix: vec![],
        });
    }
    out
}

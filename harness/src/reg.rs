//! Registry utilities: loading real metadata, JSON, reachability, permutation, CF predicate on a
//! bare registry (DESIGN.md 3.3, 3.5). Nothing here calls into scale-typegen.

use parity_scale_codec::Decode;
use scale_info::{form::PortableForm, PortableRegistry, PortableType, Type, TypeDef};
use std::collections::{BTreeMap, BTreeSet};

pub fn load_polkadot() -> PortableRegistry {
    let bytes = std::fs::read("/repo/artifacts/polkadot_metadata.scale").expect("polkadot metadata");
    let md = frame_metadata::RuntimeMetadataPrefixed::decode(&mut &bytes[..]).expect("decode metadata");
    match md.1 {
        frame_metadata::RuntimeMetadata::V14(m) => m.types,
        frame_metadata::RuntimeMetadata::V15(m) => m.types,
        _ => panic!("unsupported metadata version"),
    }
}

pub fn to_json(r: &PortableRegistry) -> serde_json::Value {
    serde_json::to_value(r).expect("registry to json")
}

pub fn from_json(v: &serde_json::Value) -> PortableRegistry {
    serde_json::from_value(v.clone()).expect("registry from json")
}

/// Ids directly referenced by a type (fields, variant fields, elements, non-skipped params, bit
/// store/order), in definition order.
pub fn children(t: &Type<PortableForm>, with_params: bool, with_bit_types: bool) -> Vec<u32> {
    let mut out = Vec::new();
    if with_params {
        out.extend(t.type_params.iter().filter_map(|p| p.ty.map(|t| t.id)));
    }
    match &t.type_def {
        TypeDef::Composite(c) => out.extend(c.fields.iter().map(|f| f.ty.id)),
        TypeDef::Variant(v) => out.extend(v.variants.iter().flat_map(|v| v.fields.iter().map(|f| f.ty.id))),
        TypeDef::Sequence(s) => out.push(s.type_param.id),
        TypeDef::Array(a) => out.push(a.type_param.id),
        TypeDef::Tuple(t) => out.extend(t.fields.iter().map(|f| f.id)),
        TypeDef::Primitive(_) => {}
        TypeDef::Compact(c) => out.push(c.type_param.id),
        TypeDef::BitSequence(b) => {
            if with_bit_types {
                out.push(b.bit_store_type.id);
                out.push(b.bit_order_type.id);
            }
        }
    }
    out
}

pub fn reachable(reg: &PortableRegistry, roots: &[u32], with_params: bool, with_bit_types: bool) -> BTreeSet<u32> {
    let mut seen = BTreeSet::new();
    let mut stack: Vec<u32> = roots.to_vec();
    while let Some(id) = stack.pop() {
        if !seen.insert(id) {
            continue;
        }
        if let Some(t) = reg.resolve(id) {
            stack.extend(children(t, with_params, with_bit_types));
        }
    }
    seen
}

/// Apply `f` to every id stored in a type.
pub fn map_ids(t: &mut Type<PortableForm>, f: &mut dyn FnMut(u32) -> u32) {
    for p in t.type_params.iter_mut() {
        if let Some(ty) = &p.ty {
            p.ty = Some(f(ty.id).into());
        }
    }
    match &mut t.type_def {
        TypeDef::Composite(c) => c.fields.iter_mut().for_each(|fl| fl.ty = f(fl.ty.id).into()),
        TypeDef::Variant(v) => v
            .variants
            .iter_mut()
            .for_each(|v| v.fields.iter_mut().for_each(|fl| fl.ty = f(fl.ty.id).into())),
        TypeDef::Sequence(s) => s.type_param = f(s.type_param.id).into(),
        TypeDef::Array(a) => a.type_param = f(a.type_param.id).into(),
        TypeDef::Tuple(t) => t.fields.iter_mut().for_each(|e| *e = f(e.id).into()),
        TypeDef::Primitive(_) => {}
        TypeDef::Compact(c) => c.type_param = f(c.type_param.id).into(),
        TypeDef::BitSequence(b) => {
            b.bit_store_type = f(b.bit_store_type.id).into();
            b.bit_order_type = f(b.bit_order_type.id).into();
        }
    }
}

/// `order[new_index] = old_id`; returns the permuted, consistently renumbered registry.
pub fn permute(reg: &PortableRegistry, order: &[u32]) -> (PortableRegistry, BTreeMap<u32, u32>) {
    assert_eq!(order.len(), reg.types.len());
    let old_to_new: BTreeMap<u32, u32> = order.iter().enumerate().map(|(n, o)| (*o, n as u32)).collect();
    let types = order
        .iter()
        .enumerate()
        .map(|(n, o)| {
            let mut ty = reg.types[*o as usize].ty.clone();
            map_ids(&mut ty, &mut |id| old_to_new.get(&id).copied().unwrap_or(id));
            PortableType { id: n as u32, ty }
        })
        .collect();
    (PortableRegistry { types }, old_to_new)
}

pub fn is_generated(t: &Type<PortableForm>) -> bool {
    t.path.segments.len() >= 2 && matches!(t.type_def, TypeDef::Composite(_) | TypeDef::Variant(_))
}

/// same-path families: path -> ids (registry order), generated types only
pub fn families(reg: &PortableRegistry) -> BTreeMap<Vec<String>, Vec<u32>> {
    let mut m: BTreeMap<Vec<String>, Vec<u32>> = BTreeMap::new();
    for t in &reg.types {
        if is_generated(&t.ty) {
            m.entry(t.ty.path.segments.clone()).or_default().push(t.id);
        }
    }
    m
}

fn mentions_ident(type_name: &str, ident: &str) -> bool {
    // identifier tokens of a recorded type name
    let mut cur = String::new();
    let mut found = false;
    for c in type_name.chars().chain(std::iter::once(' ')) {
        if c.is_alphanumeric() || c == '_' {
            cur.push(c);
        } else {
            if cur == ident {
                found = true;
            }
            cur.clear();
        }
    }
    found
}

/// Ids the generator may consult while resolving a field of type `id` (the field's own type, then
/// non-skipped parameters of path types, elements, bit store/order; Cow unwrapped).
fn consulted(reg: &PortableRegistry, id: u32, out: &mut BTreeSet<u32>) {
    if !out.insert(id) {
        return;
    }
    let Some(t) = reg.resolve(id) else { return };
    match &t.type_def {
        TypeDef::Composite(_) | TypeDef::Variant(_) => {
            for p in &t.type_params {
                if let Some(ty) = p.ty {
                    consulted(reg, ty.id, out);
                }
            }
            if t.path.segments.len() == 1 && t.path.segments[0] == "Cow" {
                if let TypeDef::Composite(c) = &t.type_def {
                    for f in &c.fields {
                        consulted(reg, f.ty.id, out);
                    }
                }
            }
        }
        TypeDef::Sequence(s) => consulted(reg, s.type_param.id, out),
        TypeDef::Array(a) => consulted(reg, a.type_param.id, out),
        TypeDef::Tuple(t) => t.fields.iter().for_each(|f| consulted(reg, f.id, out)),
        TypeDef::Compact(c) => consulted(reg, c.type_param.id, out),
        TypeDef::BitSequence(b) => {
            consulted(reg, b.bit_store_type.id, out);
            consulted(reg, b.bit_order_type.id, out);
        }
        TypeDef::Primitive(_) => {}
    }
}

/// Conservative coincidence-freedom of one registry entry, evaluated on the registry alone
/// (DESIGN.md 3.3, last paragraph). `None` = CF, `Some(reason)` otherwise.
pub fn non_cf_reason(reg: &PortableRegistry, id: u32) -> Option<String> {
    let t = reg.resolve(id)?;
    let params: Vec<(String, u32)> =
        t.type_params.iter().filter_map(|p| p.ty.map(|ty| (p.name.clone(), ty.id))).collect();
    if params.is_empty() {
        return None;
    }
    for i in 0..params.len() {
        for j in i + 1..params.len() {
            if params[i].1 == params[j].1 {
                return Some(format!("CF-1: parameters {} and {} share id {}", params[i].0, params[j].0, params[i].1));
            }
        }
    }
    let fields: Vec<&scale_info::Field<PortableForm>> = match &t.type_def {
        TypeDef::Composite(c) => c.fields.iter().collect(),
        TypeDef::Variant(v) => v.variants.iter().flat_map(|v| v.fields.iter()).collect(),
        _ => vec![],
    };
    for f in fields {
        let mut cons = BTreeSet::new();
        consulted(reg, f.ty.id, &mut cons);
        for (name, pid) in &params {
            if !cons.contains(pid) {
                continue;
            }
            match &f.type_name {
                None => return Some(format!("CF-2: field without type name contains parameter id {pid}")),
                Some(tn) => {
                    if !mentions_ident(tn, name) {
                        return Some(format!(
                            "CF-2: id {pid} of parameter {name} occurs in a field whose type name `{tn}` does not mention it"
                        ));
                    }
                    if f.ty.id == *pid && tn != name {
                        return Some(format!("CF-3: field type name `{tn}` wraps parameter {name} transparently"));
                    }
                    // a direct field whose recorded name is exactly the parameter must have its id
                }
            }
        }
        if let Some(tn) = &f.type_name {
            for (name, pid) in &params {
                if tn == name && f.ty.id != *pid {
                    return Some(format!("CF-2: field named after parameter {name} has another id"));
                }
            }
        }
    }
    None
}

/// Short structural fingerprint used to count distinct registries.
pub fn fingerprint(reg: &PortableRegistry) -> u64 {
    crate::ev::hash_of(&serde_json::to_string(reg).unwrap_or_default())
}

/// Transitive parameter coincidence (used only to key known findings): a parameter id of entry
/// `id` also occurs as a child of some *other* generated type reachable from it. types_equal
/// hands the root's generics down into nested types, so such an occurrence is taken for the
/// parameter there.
pub fn deep_coincidence(reg: &PortableRegistry, id: u32) -> bool {
    let Some(t) = reg.resolve(id) else { return false };
    let params: BTreeSet<u32> = t.type_params.iter().filter_map(|p| p.ty.map(|t| t.id)).collect();
    if params.is_empty() {
        return false;
    }
    let below = reachable(reg, &children(t, false, true), true, true);
    for g in below {
        if g == id {
            continue;
        }
        let Some(gt) = reg.resolve(g) else { continue };
        // any named type, prelude ones included: types_equal walks into Duration, NonZero*, ...
        if gt.path.segments.is_empty() || !matches!(gt.type_def, TypeDef::Composite(_) | TypeDef::Variant(_)) {
            continue;
        }
        // children of g reached without going through one of g's own parameters
        let mut inner = BTreeSet::new();
        let mut stack = children(gt, false, true);
        while let Some(x) = stack.pop() {
            if !inner.insert(x) {
                continue;
            }
            if let Some(xt) = reg.resolve(x) {
                if xt.path.segments.is_empty() {
                    stack.extend(children(xt, true, true));
                }
            }
        }
        let own: BTreeSet<u32> = gt.type_params.iter().filter_map(|p| p.ty.map(|t| t.id)).collect();
        if inner.iter().any(|x| params.contains(x) && !own.contains(x)) {
            return true;
        }
    }
    false
}

/// Entries that belong to a same-path family with a coincidence in one of its members (the
/// group heads types_equal compares against may be the coinciding ones), used only to key
/// known findings.
pub fn tainted_by_coincidence(reg: &PortableRegistry, noncf: &BTreeSet<u32>) -> BTreeSet<u32> {
    let mut out = BTreeSet::new();
    for ids in families(reg).values() {
        if ids.iter().any(|i| noncf.contains(i) || deep_coincidence(reg, *i)) || non_transitive(reg, ids) {
            out.extend(ids.iter().copied());
        }
    }
    out
}

/// The oracle's shape relation is not transitive on this family: some member is consistent with
/// two different definitions because one of its arguments coincides with what the other
/// definition has written out (e.g. Bar<i64>{g: T} next to another version's Bar<u8>{g: i64}).
pub fn non_transitive(reg: &PortableRegistry, ids: &[u32]) -> bool {
    if ids.len() < 3 || ids.len() > 16 {
        return false;
    }
    let eq = |a: u32, b: u32| crate::regeq::reg_equiv(reg, a, b) && crate::regeq::reg_equiv(reg, b, a);
    for (i, a) in ids.iter().enumerate() {
        for b in &ids[i + 1..] {
            if !eq(*a, *b) {
                // a and b differ: no third member may be equivalent to both
                if ids.iter().any(|c| c != a && c != b && eq(*a, *c) && eq(*c, *b)) {
                    return true;
                }
            }
        }
    }
    false
}

/// Is a coincidence involved anywhere at or below the given entries?
pub fn coincidence_involved(reg: &PortableRegistry, ids: &[u32], tainted: &BTreeSet<u32>) -> bool {
    reachable(reg, ids, true, true).iter().any(|i| tainted.contains(i))
}


/// Recorded field type names are optional in a registry (hand-written or stripped metadata): drop
/// each one with probability `p`. Returns how many were dropped.
pub fn drop_type_names<R: rand::Rng>(rng: &mut R, reg: &mut PortableRegistry, p: f64) -> u64 {
    use scale_info::TypeDef;
    let mut dropped = 0u64;
    for t in reg.types.iter_mut() {
        let mut strip = |fs: &mut Vec<scale_info::Field<scale_info::form::PortableForm>>| {
            for f in fs.iter_mut() {
                if f.type_name.is_some() && rng.gen_bool(p) {
                    f.type_name = None;
                    dropped += 1;
                }
            }
        };
        match &mut t.ty.type_def {
            TypeDef::Composite(c) => strip(&mut c.fields),
            TypeDef::Variant(v) => v.variants.iter_mut().for_each(|v| strip(&mut v.fields)),
            _ => {}
        }
    }
    dropped
}

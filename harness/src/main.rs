//! vharness — runtime monitors for scale-typegen. See /verif/DESIGN.md.
//!
//!   vharness run <Cxx> [--tier quick|thorough] [--seed N]      driver: shards, evidence, verdict
//!   vharness shard <Cxx> --tier T --seed N --shard i --of n    one shard (prints a JSON result)
//!   vharness replay <Cxx> <file>                                re-run one recorded case

mod art;
mod bisim;
mod cmodel;
mod codec;
mod corpus;
mod ev;
mod families;
mod gen;
mod mon;
mod prog;
mod reg;
mod regeq;
mod rt;
mod sdesc;
mod settingsgen;
mod sim;

use ev::*;
use std::io::Write;
use std::process::{Command, Stdio};
use std::time::Instant;

fn arg_val(args: &[String], name: &str) -> Option<String> {
    args.iter().position(|a| a == name).and_then(|i| args.get(i + 1).cloned())
}

fn parse_tier(s: Option<String>) -> Tier {
    match s.or_else(|| std::env::var("VERIF_TIER").ok()).as_deref() {
        Some("thorough") => Tier::Thorough,
        _ => Tier::Quick,
    }
}

fn parse_seed(s: Option<String>) -> u64 {
    s.or_else(|| std::env::var("VERIF_SEED").ok()).and_then(|s| s.parse().ok()).unwrap_or(0)
}

const RESULT_MARK: &str = "@@SHARD-RESULT@@";

fn run_in_big_stack<T: Send + 'static>(f: impl FnOnce() -> T + Send + 'static) -> T {
    std::thread::Builder::new()
        .stack_size(1 << 30)
        .spawn(f)
        .expect("spawn")
        .join()
        .unwrap_or_else(|_| {
            eprintln!("harness thread panicked");
            std::process::exit(3)
        })
}

fn main() {
    let args: Vec<String> = std::env::args().collect();
    let cmd = args.get(1).map(|s| s.as_str()).unwrap_or("");
    let monitors = mon::all();
    let find = |id: &str| monitors.iter().find(|m| m.meta.id == id);
    match cmd {
        "polkadot-hash" => {
            // development aid: fingerprint of the de-duplicated Polkadot registry and its module
            let mut r = reg::load_polkadot();
            scale_typegen::utils::ensure_unique_type_paths(&mut r).expect("dedup");
            let d = sdesc::SDesc { root: "root".into(), ..Default::default() };
            let (g, _) = gen::generate_model(&r, &d);
            match g {
                Ok(g) => println!(
                    "registry={:016x} tokens={:016x} items={}",
                    reg::fingerprint(&r),
                    hash_of(&g.tokens.to_string()),
                    g.cm.items.len()
                ),
                Err(e) => println!("generation failed: {e}"),
            }
        }
        "debug-te" => {
            let body: serde_json::Value =
                serde_json::from_str(&std::fs::read_to_string(&args[2]).unwrap()).unwrap();
            let mut r = reg::from_json(&body["replay"]["registry"]);
            let (a, b): (u32, u32) = (args[3].parse().unwrap(), args[4].parse().unwrap());
            for id in [a, b] {
                println!("{id}: {}", serde_json::to_string(&r.types[id as usize].ty).unwrap());
            }
            scale_typegen::verif_hooks::start();
            scale_typegen::utils::ensure_unique_type_paths(&mut r).unwrap();
            let ev = scale_typegen::verif_hooks::take();
            for (p, ids) in reg::families(&r) {
                if ids.len() > 1 {
                    println!("family {} {:?} classes(oracle) {:?}", p.join("::"), ids, regeq::classes(&r, &ids));
                }
            }
            println!("reg_equiv({a},{b}) after dedup = {}", regeq::reg_equiv(&r, a, b));
            let mut on = false;
            for e in ev {
                if e.tag == "te:query" {
                    on = (e.a == a && e.b == b) || (e.a == b && e.b == a);
                    if on {
                        println!("QUERY {} {} -> {}", e.a, e.b, e.c);
                    }
                } else if on {
                    println!("  {} {} {} {}", e.tag, e.a, e.b, e.c);
                }
            }
        }
        "show-gen" => {
            // development aid: print the module generated for a replay file (registry + sdesc)
            let body: serde_json::Value =
                serde_json::from_str(&std::fs::read_to_string(&args[2]).unwrap()).unwrap();
            let r = reg::from_json(&body["replay"]["registry"]);
            let d: sdesc::SDesc = serde_json::from_value(body["replay"]["sdesc"].clone()).unwrap_or_default();
            println!("{}", serde_json::to_string(&d).unwrap());
            let (g, _) = gen::generate_model(&r, &d);
            match g {
                Ok(g) => {
                    for (p, it) in &g.cm.items {
                        println!("{}: {}", p.join("::"), it.tokens);
                    }
                }
                Err(e) => println!("generation failed: {e}"),
            }
        }
        "art-debug" => {
            // development aid: compile the module of a replay file and print rustc's output
            let body: serde_json::Value =
                serde_json::from_str(&std::fs::read_to_string(&args[2]).unwrap()).unwrap();
            let r = reg::from_json(&body["replay"]["registry"]);
            let d: sdesc::SDesc = serde_json::from_value(body["replay"]["sdesc"].clone()).unwrap();
            let settings = d.build();
            let gen::GenOutcome::Ok(ts) = gen::generate(&r, &settings).outcome else { panic!("generation failed") };
            let c = rt::ArtCase { name: "dbg".into(), module: ts.to_string(), types: vec![], extra: String::new() };
            let b = rt::build(&[c], "dbg", 0, false);
            println!("built={} failed={:?} other={:?}", b.exe.is_some(), b.failed, b.other_errors);
            // restore the real case file (build() stubs failing cases out) and show rustc's words
            let c2 = rt::ArtCase { name: "dbg".into(), module: ts.to_string(), types: vec![], extra: String::new() };
            std::fs::write(b.dir.join("src/case_0.rs"), format!("#![allow(warnings)]\n{}\npub fn rt(_k: u32, _b: &[u8]) -> String {{ String::new() }}\n", c2.module)).unwrap();
            let out = std::process::Command::new("cargo").args(["build", "--offline"]).current_dir(&b.dir)
                .env("CARGO_TARGET_DIR", rt::target_dir(0)).env("RUSTFLAGS", "-Awarnings").output().unwrap();
            println!("{}", String::from_utf8_lossy(&out.stderr));
            rt::cleanup(&b);
        }
        "c06-child" => {
            let tier = parse_tier(arg_val(&args, "--tier"));
            let seed = parse_seed(arg_val(&args, "--seed"));
            let shard: usize = arg_val(&args, "--shard").and_then(|s| s.parse().ok()).unwrap_or(0);
            let of: usize = arg_val(&args, "--of").and_then(|s| s.parse().ok()).unwrap_or(1);
            install_panic_hook();
            run_in_big_stack(move || {
                let ctx = Ctx::new("C06", tier, seed, shard, of, None);
                mon::c06::child(&ctx);
            });
        }
        "show-example" => {
            let body: serde_json::Value =
                serde_json::from_str(&std::fs::read_to_string(&args[2]).unwrap()).unwrap();
            let r = reg::from_json(&body["replay"]["registry"]);
            let d: sdesc::SDesc = serde_json::from_value(body["replay"]["sdesc"].clone()).unwrap();
            let id = body["replay"]["id"].as_u64().unwrap() as u32;
            let seed = body["replay"]["seed"].as_u64().unwrap();
            println!("{:?}", scale_typegen_description::rust_value_from_seed(id, &r, &d.build(), seed, None, None).map(|t| t.to_string()));
        }
        "corpus-check" | "corpus-build" => {
            // build N programs with real scale-info (and the real codec), compare with the model
            let n: u64 = args.get(2).and_then(|s| s.parse().ok()).unwrap_or(60);
            let seed = parse_seed(arg_val(&args, "--seed"));
            let programs: Vec<(prog::Program, bool)> = (0..n).map(|k| (corpus::corpus_program(seed, k, k % 2 == 0), k % 2 == 0)).collect();
            let b = corpus::build(&programs, "check");
            println!("corpus build: ok={} in {:.1}s", b.exe.is_some(), b.secs);
            if b.exe.is_none() {
                for l in b.errors.lines().filter(|l| l.starts_with("error") || l.contains("-->")).take(40) {
                    println!("  {l}");
                }
                corpus::cleanup(&b);
                std::process::exit(2);
            }
            // reference encodings of every root, validated by the source type's real Decode
            let mut queries = Vec::new();
            let mut qmeta = Vec::new();
            for (k, (p, codec)) in programs.iter().enumerate() {
                if !*codec {
                    continue;
                }
                let out = sim::simulate(p);
                use rand::SeedableRng;
                let mut rng = rand_chacha::ChaCha8Rng::seed_from_u64(seed ^ k as u64);
                for (ri, id) in out.root_ids.iter().enumerate() {
                    for _ in 0..8 {
                        let mut bytes = Vec::new();
                        let mut g = codec::EncGen { reg: &out.registry, rng: &mut rng, canonical_collections: true, budget: 200, saw_unit_compact: false, steps: 0 };
                        if g.gen(*id, 0, &mut bytes).is_ok() {
                            queries.push((k, ri, bytes));
                            qmeta.push((k, ri));
                        }
                    }
                }
            }
            match corpus::run(&b, programs.len(), &queries) {
                Err(e) => {
                    println!("corpus run failed: {e}");
                    corpus::cleanup(&b);
                    std::process::exit(2);
                }
                Ok((regs, answers)) => {
                    let mut mismatches = 0;
                    for (k, (p, _)) in programs.iter().enumerate() {
                        if let Some(d) = corpus::compare(p, &regs[k]) {
                            mismatches += 1;
                            if mismatches <= 5 {
                                println!("MODEL MISMATCH program {k}: {d}");
                                println!("{}", p.render_source("TypeInfo").lines().filter(|l| !l.starts_with("use ") && !l.trim().is_empty()).collect::<Vec<_>>().join("\n"));
                            }
                        }
                    }
                    let mut bad = 0;
                    for ((q, a), m) in queries.iter().zip(answers.iter()).zip(qmeta.iter()) {
                        let want = format!("ok {} {}", q.2.len(), mon::c01::hex_full(&q.2));
                        if *a != want {
                            bad += 1;
                            if bad <= 5 {
                                println!("ENCODER MISMATCH program {} root {}: sent {} got {}", m.0, m.1, mon::c01::hex(&q.2), a.chars().take(120).collect::<String>());
                            }
                        }
                    }
                    println!("corpus: {} programs, {} model mismatches; {} reference encodings validated by the real codec, {} rejected", programs.len(), mismatches, queries.len(), bad);
                    if cmd == "corpus-build" && mismatches == 0 {
                        let entries: Vec<corpus::CorpusEntry> = programs.iter().enumerate().map(|(k, (p, c))| corpus::CorpusEntry { program: p.clone(), codec: *c, real_registry: regs[k].clone() }).collect();
                        let path = verif_dir().join("corpus").join("corpus.json");
                        std::fs::create_dir_all(path.parent().unwrap()).unwrap();
                        std::fs::write(&path, serde_json::to_string(&entries).unwrap()).unwrap();
                        println!("wrote {}", path.display());
                    }
                    corpus::cleanup(&b);
                    std::process::exit(if mismatches == 0 && bad == 0 { 0 } else { 1 });
                }
            }
        }
        "miri-slice" => {
            // advisory sanitizer pass (DESIGN.md 7): a small slice of the workloads, meant to be
            // run under `cargo +nightly miri run`. No file system, no subprocesses, no clock.
            let n_prog: u64 = args.get(2).and_then(|s| s.parse().ok()).unwrap_or(6);
            let n_str: u64 = args.get(3).and_then(|s| s.parse().ok()).unwrap_or(120);
            let mut panics = 0u64;
            let mut ok = 0u64;
            use rand::SeedableRng;
            for i in 0..n_str {
                let mut rng = rand_chacha::ChaCha8Rng::seed_from_u64(i);
                let s = mon::c15::random_input(&mut rng);
                match std::panic::catch_unwind(|| scale_typegen_description::format_type_description(&s)) {
                    Ok(_) => ok += 1,
                    Err(_) => panics += 1,
                }
            }
            for k in 0..n_prog {
                let mut rng = rand_chacha::ChaCha8Rng::seed_from_u64(1000 + k);
                let mut cfg = prog::GenCfg::default();
                cfg.max_defs = 3;
                cfg.max_fields = 3;
                cfg.max_insts = 2;
                let p = prog::ProgGen::new(&mut rng, cfg).gen_program();
                let out = sim::simulate(&p);
                let d = sdesc::SDesc::default();
                let settings = d.build();
                let r = std::panic::catch_unwind(std::panic::AssertUnwindSafe(|| {
                    let mut r2 = out.registry.clone();
                    let _ = scale_typegen::utils::ensure_unique_type_paths(&mut r2);
                    let g = scale_typegen::TypeGenerator::new(&r2, &settings);
                    use scale_typegen::typegen::ir::ToTokensWithSettings;
                    let _ = g.generate_types_mod().map(|m| m.to_token_stream(&settings).to_string().len());
                    for t in &r2.types {
                        let _ = scale_typegen_description::type_description(t.id, &r2, true);
                        let _ = scale_typegen_description::scale_value_from_seed(t.id, &r2, 3);
                        let _ = scale_typegen_description::rust_value_from_seed(t.id, &r2, &settings, 3, None, None);
                    }
                }));
                match r {
                    Ok(_) => ok += 1,
                    Err(_) => panics += 1,
                }
            }
            println!("MIRI-SLICE ok={ok} panics={panics}");
        }
        "warm" => {
            // setup aid: build the artifact dependencies once per target-dir slot
            for slot in 0..4usize {
                let c = rt::ArtCase { name: "warm".into(), module: "pub mod root { }".into(), types: vec![], extra: String::new() };
                let b = rt::build(&[c], &format!("warm{slot}"), slot, false);
                println!("slot {slot}: built={} in {:.1}s {}", b.exe.is_some(), b.build_secs, b.other_errors.join(" | "));
                rt::cleanup(&b);
            }
        }
        "list" => {
            for m in &monitors {
                println!("{}", m.meta.id);
            }
        }
        "shard" => {
            let id = args.get(2).expect("property id").clone();
            let tier = parse_tier(arg_val(&args, "--tier"));
            let seed = parse_seed(arg_val(&args, "--seed"));
            let shard: usize = arg_val(&args, "--shard").and_then(|s| s.parse().ok()).unwrap_or(0);
            let of: usize = arg_val(&args, "--of").and_then(|s| s.parse().ok()).unwrap_or(1);
            let progress = arg_val(&args, "--progress").map(std::path::PathBuf::from);
            let m = find(&id).unwrap_or_else(|| panic!("no monitor {id}"));
            let run = m.run;
            let replay = m.replay;
            install_panic_hook();
            let res = run_in_big_stack(move || {
                let mut ctx = Ctx::new(&id, tier, seed, shard, of, progress);
                if shard == 0 {
                    // pinned witnesses of known findings (open: must still fail and are reported
                    // as KNOWN-FINDING; fixed: regression inputs that must stay silent)
                    for k in load_known().iter().filter(|k| k.property == id) {
                        let Some(w) = &k.witness else { continue };
                        let path = verif_dir().join(w);
                        match std::fs::read_to_string(&path).ok().and_then(|s| serde_json::from_str::<serde_json::Value>(&s).ok()) {
                            Some(body) => {
                                let payload = if body.get("replay").is_some() { body["replay"].clone() } else { body };
                                ctx.begin_case(&format!("pinned witness {w}"));
                                replay(&mut ctx, &payload);
                                ctx.count("pinned_witnesses_replayed", 1);
                            }
                            None => ctx.inconclusive(format!("pinned witness {w} unreadable")),
                        }
                    }
                }
                run(&mut ctx);
                ctx.res
            });
            let out = std::io::stdout();
            let mut out = out.lock();
            writeln!(out, "{RESULT_MARK}{}", serde_json::to_string(&res).unwrap()).unwrap();
        }
        "replay" => {
            let id = args.get(2).expect("property id").clone();
            let file = args.get(3).expect("replay file");
            let body: serde_json::Value =
                serde_json::from_str(&std::fs::read_to_string(file).expect("read replay")).expect("replay json");
            let m = find(&id).unwrap_or_else(|| panic!("no monitor {id}"));
            let replay = m.replay;
            install_panic_hook();
            let idc = id.clone();
            let res = run_in_big_stack(move || {
                let mut ctx = Ctx::new(&idc, Tier::Quick, 0, 0, 1, None);
                let payload = if body.get("replay").is_some() { body["replay"].clone() } else { body.clone() };
                replay(&mut ctx, &payload);
                ctx.res
            });
            let mut exit = 0;
            let known = load_known();
            for v in &res.violations {
                if known.iter().any(|k| k.property == id && k.status == "open" && k.key == v.key) {
                    println!("KNOWN-FINDING: property={id} [{}] {}", v.key, v.what);
                } else {
                    println!("VIOLATION property={id} replay={file}");
                    println!("  key={}", v.key);
                    println!("  {}", v.what);
                    exit = 1;
                }
            }
            if res.violations.is_empty() {
                println!("{id} replay: no violation on this case");
            }
            std::process::exit(exit);
        }
        "run" => {
            let id = args.get(2).expect("property id").clone();
            let tier = parse_tier(arg_val(&args, "--tier"));
            let seed = parse_seed(arg_val(&args, "--seed"));
            let m = find(&id).unwrap_or_else(|| {
                eprintln!("no monitor {id}");
                std::process::exit(3)
            });
            let n = arg_val(&args, "--shards")
                .and_then(|s| s.parse().ok())
                .unwrap_or(tier.pick(m.meta.shards.0, m.meta.shards.1));
            let t0 = Instant::now();
            let exe = std::env::current_exe().expect("exe");
            let scratch = verif_dir().join(".scratch").join(format!("{}", std::process::id()));
            std::fs::create_dir_all(&scratch).expect("scratch");
            let children: Vec<_> = (0..n)
                .map(|i| {
                    let prog = scratch.join(format!("progress.{i}"));
                    let child = Command::new(&exe)
                        .args(["shard", &id, "--tier", tier.name(), "--seed", &seed.to_string()])
                        .args(["--shard", &i.to_string(), "--of", &n.to_string()])
                        .arg("--progress")
                        .arg(&prog)
                        // files, not pipes: the driver polls for exit and must not have to drain
                        .stdout(std::fs::File::create(scratch.join(format!("stdout.{i}"))).expect("shard stdout"))
                        .stderr(std::fs::File::create(scratch.join(format!("stderr.{i}"))).expect("shard stderr"))
                        .spawn()
                        .expect("spawn shard");
                    (i, prog, child)
                })
                .collect();
            // wall-clock watchdog (generous; its firing is inconclusive, never a violation)
            let limit = std::time::Duration::from_secs(
                std::env::var("VERIF_SHARD_TIMEOUT_S").ok().and_then(|s| s.parse().ok()).unwrap_or(tier.pick(900, 3 * 3600)),
            );
            let mut results = Vec::new();
            let mut children = children;
            let deadline = Instant::now() + limit;
            let mut timed_out = std::collections::BTreeSet::new();
            loop {
                let mut running = 0;
                for (i, _, child) in children.iter_mut() {
                    if timed_out.contains(i) {
                        continue;
                    }
                    if let Ok(None) = child.try_wait() {
                        running += 1;
                        if Instant::now() > deadline {
                            let _ = child.kill();
                            timed_out.insert(*i);
                        }
                    }
                }
                if running == 0 {
                    break;
                }
                std::thread::sleep(std::time::Duration::from_millis(50));
            }
            for (i, prog, child) in children {
                if timed_out.contains(&i) {
                    let case = std::fs::read_to_string(&prog).unwrap_or_default();
                    results.push(Err(format!("watchdog: shard {i} exceeded {}s during `{case}`", limit.as_secs())));
                    continue;
                }
                let mut child = child;
                let status = child.wait().expect("wait shard");
                struct Out {
                    status: std::process::ExitStatus,
                    stderr: Vec<u8>,
                }
                let out = Out { status, stderr: std::fs::read(scratch.join(format!("stderr.{i}"))).unwrap_or_default() };
                let stdout_bytes = std::fs::read(scratch.join(format!("stdout.{i}"))).unwrap_or_default();
                let stdout = String::from_utf8_lossy(&stdout_bytes);
                let parsed = stdout
                    .lines()
                    .find_map(|l| l.strip_prefix(RESULT_MARK))
                    .and_then(|j| serde_json::from_str::<ShardResult>(j).ok());
                match parsed {
                    Some(r) if out.status.success() => results.push(Ok(r)),
                    _ => {
                        // the shard died: an abort (stack overflow, allocation failure) inside the
                        // case named in the progress file, or a harness defect
                        let case = std::fs::read_to_string(&prog).unwrap_or_default();
                        let stderr = String::from_utf8_lossy(&out.stderr);
                        let tail: String = stderr.lines().rev().take(6).collect::<Vec<_>>().join(" | ");
                        let mut r = ShardResult::default();
                        // killed by a signal while the outermost guarded library call was running
                        // (flag file 'L'), for a property whose statement leaves no room for that
                        // (termination / totality / "fails with the documented error or succeeds")
                        let in_library = {
                            use std::os::unix::process::ExitStatusExt;
                            let mut f = prog.clone().into_os_string();
                            f.push(".lib");
                            out.status.signal().is_some() && std::fs::read(&f).map(|b| b.first() == Some(&b'L')).unwrap_or(false)
                        };
                        const ABORT_IS_VIOLATION: &[&str] = &["C03", "C04", "C10", "C12", "C13", "C14", "C15"];
                        if (in_library && ABORT_IS_VIOLATION.contains(&id.as_str()))
                            || (!case.is_empty() && case.starts_with("abort-is-violation:"))
                        {
                            r.violations.push(Violation {
                                key: format!("{id}:abort"),
                                what: format!("shard {i} aborted ({:?}) during case {case}: {tail}", out.status),
                                replay: serde_json::json!({"kind": "abort", "case": case}),
                            });
                            results.push(Ok(r));
                        } else {
                            results.push(Err(format!(
                                "shard {i} failed ({:?}) during `{case}`: {tail}",
                                out.status
                            )));
                        }
                    }
                }
            }
            let _ = std::fs::remove_dir_all(&scratch);
            let outcome = aggregate(m.meta, tier, seed, results, t0.elapsed().as_secs_f64(), true);
            for l in outcome.lines {
                println!("{l}");
            }
            std::process::exit(outcome.exit);
        }
        _ => {
            eprintln!("usage: vharness run|shard|replay|list ...");
            std::process::exit(3);
        }
    }
}

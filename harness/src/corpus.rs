//! Ground truth (DESIGN.md 3.4): programs are rendered as real Rust source with
//! `#[derive(TypeInfo, Encode, Decode)]`, compiled against the real scale-info and
//! parity-scale-codec crates, and the binary dumps the registries real scale-info produced and
//! validates encodings with the source types' real `Decode`. Used to monitor the fidelity of the
//! scale-info model (sim.rs) and of the reference encoder (codec.rs).

use crate::ev::verif_dir;
use crate::prog::*;
use scale_info::PortableRegistry;
use serde::{Deserialize, Serialize};
use std::io::Write;
use std::path::PathBuf;
use std::process::{Command, Stdio};

#[derive(Clone, Serialize, Deserialize)]
pub struct CorpusEntry {
    pub program: Program,
    /// derives Encode/Decode too (restricted program class)
    pub codec: bool,
    /// what real scale-info produced for `program.roots` registered in order
    pub real_registry: serde_json::Value,
}

pub struct CorpusBuild {
    pub dir: PathBuf,
    pub exe: Option<PathBuf>,
    pub errors: String,
    pub secs: f64,
}

fn target_dir() -> PathBuf {
    verif_dir().join(".scratch").join("corpus-target")
}

pub fn corpus_program(seed: u64, k: u64, codec: bool) -> Program {
    use rand::SeedableRng;
    let mut rng = rand_chacha::ChaCha8Rng::seed_from_u64(seed.wrapping_mul(0x9E37_79B9).wrapping_add(k));
    let mut cfg = GenCfg::default();
    cfg.nested_phantom = k % 3 == 0;
    cfg.compact_unit = k % 5 == 0 && !codec;
    cfg.allow_alias = k % 4 == 1;
    cfg.p_assoc = if k % 3 == 1 { 0.5 } else { 0.15 };
    cfg.hostile_names = k % 7 == 2;
    cfg.cow_def = false;
    cfg.odd_docs = false;
    cfg.bitvec_param = false;
    if codec {
        cfg.allow_char = false;
        cfg.generic_recursion = false;
        cfg.allow_alias = false;
    }
    ProgGen::new(&mut rng, cfg).gen_program().prefixed(&format!("p{k}"))
}

/// Write and build the corpus crate for the given programs.
pub fn build(programs: &[(Program, bool)], tag: &str) -> CorpusBuild {
    let dir = verif_dir().join(".scratch").join(format!("corpus-{}-{tag}", std::process::id()));
    let t0 = std::time::Instant::now();
    let _ = std::fs::create_dir_all(dir.join("src"));
    let cargo = "[package]\nname = \"krate\"\nversion = \"0.1.0\"\nedition = \"2021\"\npublish = false\n\n[workspace]\n\n[dependencies]\nscale-info = { version = \"2.11.1\", features = [\"derive\", \"bit-vec\", \"decode\", \"docs\", \"serde\"] }\nparity-scale-codec = { version = \"3.6.12\", features = [\"derive\", \"bit-vec\"] }\nbitvec = { version = \"1\", default-features = false, features = [\"alloc\"] }\nserde_json = \"1\"\n\n[profile.dev]\nopt-level = 0\ndebug = false\nincremental = false\n";
    let _ = std::fs::write(dir.join("Cargo.toml"), cargo);
    let _ = std::fs::copy("/repo/Cargo.lock", dir.join("Cargo.lock"));
    let mut main = String::from("#![allow(warnings)]\n#![recursion_limit = \"512\"]\n");
    for (k, _) in programs.iter().enumerate() {
        main.push_str(&format!("#[path = \"prog_{k}.rs\"]\npub mod p{k};\n"));
    }
    main.push_str("fn hex(b: &[u8]) -> String { b.iter().map(|x| format!(\"{x:02x}\")).collect() }\nfn unhex(s: &str) -> Vec<u8> { (0..s.len() / 2).map(|i| u8::from_str_radix(&s[2 * i..2 * i + 2], 16).unwrap_or(0)).collect() }\n");
    main.push_str("fn main() {\n    use std::io::BufRead;\n");
    for (k, _) in programs.iter().enumerate() {
        main.push_str(&format!("    println!(\"REG {k} {{}}\", p{k}::dump());\n"));
    }
    main.push_str("    let stdin = std::io::stdin();\n    for line in stdin.lock().lines() {\n        let line = line.unwrap();\n        let mut it = line.split(' ');\n        let k: usize = it.next().and_then(|s| s.parse().ok()).unwrap_or(usize::MAX);\n        let root: usize = it.next().and_then(|s| s.parse().ok()).unwrap_or(usize::MAX);\n        let bytes = unhex(it.next().unwrap_or(\"\"));\n        let out = match k {\n");
    for (k, (_, codec)) in programs.iter().enumerate() {
        if *codec {
            main.push_str(&format!("            {k} => p{k}::validate(root, &bytes),\n"));
        }
    }
    main.push_str("            _ => \"err no such program\".to_string(),\n        };\n        println!(\"{}\", out.replace('\\n', \" | \"));\n    }\n}\n");
    let _ = std::fs::write(dir.join("src/main.rs"), main);
    for (k, (p, codec)) in programs.iter().enumerate() {
        let derives = if *codec { "TypeInfo, Encode, Decode" } else { "TypeInfo" };
        let mut src = String::from("#![allow(warnings)]\n");
        // the program's own module tree (its prefix module is `p<k>`); paths inside say `crate::p<k>::..`,
        // so re-export it at the crate root
        src.push_str(&p.render_body(derives, false));
        src.push_str("\npub fn dump() -> String {\n    let mut reg = scale_info::Registry::new();\n");
        for r in &p.roots {
            src.push_str(&format!("    reg.register_type(&scale_info::meta_type::<{}>());\n", p.render_ty(r, None)));
        }
        src.push_str("    let pr: scale_info::PortableRegistry = reg.into();\n    serde_json::to_string(&pr).unwrap()\n}\n");
        if *codec {
            src.push_str("pub fn validate(root: usize, b: &[u8]) -> String {\n    use parity_scale_codec::{Decode, Encode};\n    match root {\n");
            for (i, r) in p.roots.iter().enumerate() {
                let t = p.render_ty(r, None);
                src.push_str(&format!(
                    "        {i} => {{ let mut i = b; match <{t} as Decode>::decode(&mut i) {{ Ok(v) => format!(\"ok {{}} {{}}\", b.len() - i.len(), crate::hex(&v.encode())), Err(e) => format!(\"err {{e}}\") }} }}\n"
                ));
            }
            src.push_str("        _ => \"err no such root\".to_string(),\n    }\n}\n");
        }
        let _ = std::fs::write(dir.join(format!("src/prog_{k}.rs")), src);
    }
    let out = Command::new("cargo")
        .args(["build", "--offline", "--quiet"])
        .current_dir(&dir)
        .env("CARGO_TARGET_DIR", target_dir())
        .env("CARGO_NET_OFFLINE", "true")
        .env("RUSTFLAGS", "-Awarnings")
        .output();
    let (ok, errors) = match out {
        Ok(o) => (o.status.success(), String::from_utf8_lossy(&o.stderr).to_string()),
        Err(e) => (false, format!("cannot run cargo: {e}")),
    };
    let mut exe = None;
    if ok {
        let p = target_dir().join("debug").join("krate");
        let private = dir.join("krate-bin");
        if std::fs::copy(&p, &private).is_ok() {
            exe = Some(private);
        }
    }
    CorpusBuild { dir, exe, errors, secs: t0.elapsed().as_secs_f64() }
}

/// Run the corpus binary: returns the real registries (JSON, per program) and the answers to the
/// validation queries `(program, root, bytes)`.
pub fn run(b: &CorpusBuild, n: usize, queries: &[(usize, usize, Vec<u8>)]) -> Result<(Vec<serde_json::Value>, Vec<String>), String> {
    let exe = b.exe.as_ref().ok_or("corpus did not build")?;
    let mut child = Command::new(exe).stdin(Stdio::piped()).stdout(Stdio::piped()).stderr(Stdio::piped()).spawn().map_err(|e| e.to_string())?;
    let mut input = String::new();
    for (k, r, bytes) in queries {
        input.push_str(&format!("{k} {r} {}\n", crate::mon::c01::hex_full(bytes)));
    }
    let mut stdin = child.stdin.take().ok_or("stdin")?;
    let w = std::thread::spawn(move || {
        let _ = stdin.write_all(input.as_bytes());
    });
    let out = child.wait_with_output().map_err(|e| e.to_string())?;
    let _ = w.join();
    let text = String::from_utf8_lossy(&out.stdout);
    let mut regs = vec![serde_json::Value::Null; n];
    let mut answers = Vec::new();
    for line in text.lines() {
        if let Some(rest) = line.strip_prefix("REG ") {
            let (k, json) = rest.split_once(' ').ok_or("bad REG line")?;
            let k: usize = k.parse().map_err(|_| "bad REG index")?;
            regs[k] = serde_json::from_str(json).map_err(|e| format!("REG json: {e}"))?;
        } else {
            answers.push(line.to_string());
        }
    }
    if answers.len() != queries.len() {
        return Err(format!("{} answers for {} queries; stderr: {}", answers.len(), queries.len(), String::from_utf8_lossy(&out.stderr).lines().last().unwrap_or("")));
    }
    Ok((regs, answers))
}

pub fn cleanup(b: &CorpusBuild) {
    let _ = std::fs::remove_dir_all(&b.dir);
}

/// Compare the model with a real registry; Some(description of the first difference) on mismatch.
pub fn compare(p: &Program, real: &serde_json::Value) -> Option<String> {
    let sim = crate::sim::simulate(p);
    let real_reg: PortableRegistry = match serde_json::from_value(real.clone()) {
        Ok(r) => r,
        Err(e) => return Some(format!("real registry does not deserialize: {e}")),
    };
    if sim.registry == real_reg {
        return None;
    }
    // rustc's token printer wraps long types: the recorded type names of real registries may
    // contain line breaks where the model has a space (or nothing); compare modulo whitespace
    let norm = |r: &PortableRegistry| -> PortableRegistry {
        let mut r = r.clone();
        let fix = |f: &mut scale_info::Field<scale_info::form::PortableForm>| {
            if let Some(n) = &mut f.type_name {
                *n = n.chars().filter(|c| !c.is_whitespace()).collect();
            }
        };
        for t in r.types.iter_mut() {
            match &mut t.ty.type_def {
                scale_info::TypeDef::Composite(c) => c.fields.iter_mut().for_each(fix),
                scale_info::TypeDef::Variant(v) => v.variants.iter_mut().for_each(|v| v.fields.iter_mut().for_each(fix)),
                _ => {}
            }
        }
        r
    };
    let (sn, rn) = (norm(&sim.registry), norm(&real_reg));
    if sn == rn {
        return None;
    }
    for (a, b) in sn.types.iter().zip(rn.types.iter()) {
        if a != b {
            return Some(format!(
                "entry {}: model {} vs real {}",
                a.id,
                serde_json::to_string(&a.ty).unwrap_or_default().chars().take(400).collect::<String>(),
                serde_json::to_string(&b.ty).unwrap_or_default().chars().take(400).collect::<String>()
            ));
        }
    }
    Some(format!("model has {} entries, real scale-info {}", sim.registry.types.len(), real_reg.types.len()))
}

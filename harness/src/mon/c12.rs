//! C12 — example SCALE values are valid instances of their type.

use crate::ev::*;
use crate::prog::*;
use crate::reg;
use crate::sim;
use scale_info::{PortableRegistry, TypeDef, TypeDefPrimitive};
use scale_typegen_description::{scale_value, scale_value_from_seed};
use serde_json::json;
use std::collections::{BTreeMap, BTreeSet};

pub const META: PropMeta = PropMeta {
    id: "C12",
    level: "exploration",
    rule: "cases = (registry, id, seed): a hand-written gallery of recursive types that can terminate (ternary tree, list, optional boxes, mutual and generic recursion) referenced several times from one root and through Vec/array/tuple, with 48 / 512 seeds; simulator programs incl. cyclic ones, all primitives (the 128-bit ones are rewritten to U256/I256 in every fifth registry), all 8 store x order bit sequences, compact over unsigned integers, empty enums, Duration/NonZero/PhantomData entries; every id; 4 (quick) / 32 (thorough) seeds; Polkadot ids with 2 / 8 seeds (ids reaching a compact over anything but an unsigned integer or a single-field wrapper of one are outside the class: skipped and counted). Oracle: no panic; a returned value must encode with scale_value::scale::encode_as_type against the same id, the bytes must decode with decode_as_type consuming all input to an equal value (contexts removed); the same seed must give the same value; Err is acceptable only if the subgraph reachable from the id contains a cycle or an empty enum. Bounded progress (restating 'terminates'): transformer resolve calls <= the oracle's unfolding size of the type (sequences x2, arrays x length, enums = largest variant). non-trivial = a value was returned for a composite/variant/sequence type; distinct by (registry hash, id, seed).",
    assumptions: &["scale-value 0.18 / scale-encode 0.10 / scale-decode 0.16 are the reference encoder and decoder the statement names"],
    required_counters: &["values_roundtripped", "errs_on_cyclic_or_empty", "bit_sequence_values", "compact_values", "same_seed_compared", "hook[tf:policy-enter]", "gallery_registries", "seedless_entry_point_calls"],
    floor: (3000, 100_000),
    shards: (16, 16),
};

fn reach_info(r: &PortableRegistry, id: u32) -> (bool, bool, BTreeSet<&'static str>, bool) {
    // (cyclic, has empty enum, special primitives present, outside class)
    let reach = reg::reachable(r, &[id], false, true);
    let mut empty = false;
    let mut prims = BTreeSet::new();
    let mut outside = false;
    for i in &reach {
        let Some(t) = r.resolve(*i) else { continue };
        match &t.type_def {
            TypeDef::Variant(v) if v.variants.is_empty() => empty = true,
            TypeDef::Primitive(TypeDefPrimitive::Char) => {
                prims.insert("char");
            }
            TypeDef::Primitive(TypeDefPrimitive::U256) => {
                prims.insert("u256");
            }
            TypeDef::Primitive(TypeDefPrimitive::I256) => {
                prims.insert("i256");
            }
            TypeDef::Compact(c) => {
                // class: compact over unsigned integers or single-field wrappers of them
                let mut cur = c.type_param.id;
                let mut ok = false;
                for _ in 0..8 {
                    match r.resolve(cur).map(|t| &t.type_def) {
                        Some(TypeDef::Primitive(p)) => {
                            ok = matches!(p, TypeDefPrimitive::U8 | TypeDefPrimitive::U16 | TypeDefPrimitive::U32 | TypeDefPrimitive::U64 | TypeDefPrimitive::U128);
                            break;
                        }
                        Some(TypeDef::Composite(c)) if c.fields.len() == 1 => cur = c.fields[0].ty.id,
                        Some(TypeDef::Tuple(t)) if t.fields.len() == 1 => cur = t.fields[0].id,
                        _ => break,
                    }
                }
                if !ok {
                    outside = true;
                }
            }
            _ => {}
        }
    }
    (crate::mon::c13::has_cycle(r, id), empty, prims, outside)
}

/// Oracle's unfolding size (number of resolve calls a straightforward example needs).
pub fn unfolding(r: &PortableRegistry, id: u32, stack: &mut Vec<u32>, memo: &mut BTreeMap<u32, u64>) -> u64 {
    unfolding_with(r, id, stack, memo, 0)
}

/// `array_min`: the least number of times an array's element counts (the Rust example resolves the
/// element of an empty array once; the SCALE example does not).
pub fn unfolding_with(r: &PortableRegistry, id: u32, stack: &mut Vec<u32>, memo: &mut BTreeMap<u32, u64>, array_min: u64) -> u64 {
    const CAP: u64 = 50_000_000;
    if stack.contains(&id) {
        return 1;
    }
    if let Some(v) = memo.get(&id) {
        return *v;
    }
    let Some(t) = r.resolve(id) else { return 1 };
    stack.push(id);
    let mut sum = |ids: Vec<u32>, stack: &mut Vec<u32>, memo: &mut BTreeMap<u32, u64>| -> u64 {
        ids.into_iter().fold(0u64, |a, i| a.saturating_add(unfolding_with(r, i, stack, memo, array_min))).min(CAP)
    };
    let v = 1 + match &t.type_def {
        TypeDef::Composite(c) => sum(c.fields.iter().map(|f| f.ty.id).collect(), stack, memo),
        TypeDef::Variant(v) => v.variants.iter().map(|v| sum(v.fields.iter().map(|f| f.ty.id).collect(), stack, memo)).max().unwrap_or(0),
        TypeDef::Sequence(s) => 2 * unfolding_with(r, s.type_param.id, stack, memo, array_min),
        TypeDef::Array(a) => (a.len as u64).max(array_min).saturating_mul(unfolding_with(r, a.type_param.id, stack, memo, array_min)),
        TypeDef::Tuple(tu) => sum(tu.fields.iter().map(|f| f.id).collect(), stack, memo),
        TypeDef::Compact(c) => unfolding_with(r, c.type_param.id, stack, memo, array_min),
        _ => 0,
    };
    stack.pop();
    let v = v.min(CAP);
    if stack.is_empty() {
        memo.insert(id, v);
    }
    v
}

/// `seed == SEEDLESS` judges the convenience entry point `scale_value(id, types)` (fixed internal
/// seed) by the same clauses.
pub const SEEDLESS: u64 = u64::MAX;

pub fn judge(ctx: &mut Ctx, r: &PortableRegistry, id: u32, seed: u64, info: &(bool, bool, BTreeSet<&'static str>, bool), bound: u64, replay: &dyn Fn() -> serde_json::Value) -> bool {
    let scale_value_from_seed = |id: u32, r: &PortableRegistry, seed: u64| if seed == SEEDLESS { scale_value(id, r) } else { scale_value_from_seed(id, r, seed) };
    scale_typegen::verif_hooks::start();
    // logical-step watchdog: the call may emit at most a generous multiple of the oracle's
    // unfolding size of the type before it is stopped (bounded progress)
    scale_typegen::verif_hooks::set_budget(Some(bound.saturating_mul(8).saturating_add(256).min(40_000_000)));
    let got = guard(|| scale_value_from_seed(id, r, seed));
    scale_typegen::verif_hooks::set_budget(None);
    let events = scale_typegen::verif_hooks::take();
    crate::gen::tally(&events, &mut ctx.res.counters);
    let resolves = events.iter().filter(|e| matches!(e.tag, "tf:miss" | "tf:hit-in-progress" | "tf:hit-computed")).count() as u64;
    if bound < 50_000_000 && resolves > bound.saturating_mul(2) + 2 {
        ctx.violation("C12:progress-bound", format!("example for id {id}: {resolves} resolve calls, oracle unfolding {bound}"), replay());
    }
    let value = match got {
        Err(p) if p.msg.contains("event budget exceeded") => {
            ctx.violation("C12:progress-bound", format!("scale_value_from_seed({id}, seed {seed}) did not finish within 8x the oracle's unfolding size ({bound}) of resolve steps"), replay());
            return false;
        }
        Err(p) => {
            ctx.violation(format!("C12:panic:{}", p.signature()), format!("scale_value_from_seed({id}, seed {seed}) panicked: {}", p.msg), replay());
            return false;
        }
        Ok(Err(e)) => {
            if info.0 || info.1 {
                ctx.count("errs_on_cyclic_or_empty", 1);
            } else {
                ctx.violation("C12:err-on-acyclic-inhabited-type", format!("id {id} (acyclic, no empty enum) yields an error: {e}"), replay());
            }
            return false;
        }
        Ok(Ok(v)) => v,
    };
    // same seed, same value
    if let Ok(Ok(v2)) = guard(|| scale_value_from_seed(id, r, seed)) {
        ctx.count("same_seed_compared", 1);
        if v2 != value {
            ctx.violation("C12:same-seed-different-value", format!("id {id} seed {seed}: two calls returned different values"), replay());
        }
    }
    let mut bytes = Vec::new();
    let enc = guard(|| scale_value::scale::encode_as_type(&value, id, r, &mut bytes).map_err(|e| e.to_string()));
    match enc {
        Err(p) => {
            ctx.violation(format!("C12:encode-panic:{}", p.signature()), p.msg.clone(), replay());
            return false;
        }
        Ok(Err(e)) => {
            // keyed on the failing input: which un-encodable primitive kinds the returned value
            // contains (scale-encode 0.10 refuses Char and 256-bit primitives as targets; the type
            // id it reports is unreliable below single-field wrappers)
            fn kinds(v: &scale_value::Value<()>, out: &mut BTreeSet<&'static str>) {
                use scale_value::{Composite, Primitive, ValueDef};
                match &v.value {
                    ValueDef::Primitive(Primitive::Char(_)) => {
                        out.insert("char");
                    }
                    ValueDef::Primitive(Primitive::U256(_)) => {
                        out.insert("u256");
                    }
                    ValueDef::Primitive(Primitive::I256(_)) => {
                        out.insert("i256");
                    }
                    ValueDef::Composite(Composite::Named(fs)) => fs.iter().for_each(|(_, x)| kinds(x, out)),
                    ValueDef::Composite(Composite::Unnamed(fs)) => fs.iter().for_each(|x| kinds(x, out)),
                    ValueDef::Variant(var) => match &var.values {
                        Composite::Named(fs) => fs.iter().for_each(|(_, x)| kinds(x, out)),
                        Composite::Unnamed(fs) => fs.iter().for_each(|x| kinds(x, out)),
                    },
                    _ => {}
                }
            }
            let mut ks = BTreeSet::new();
            kinds(&value, &mut ks);
            let tag = ["char", "u256", "i256"].iter().find(|k| ks.contains(*k)).map(|k| k.to_string()).unwrap_or_else(|| "other".to_string());
            let _ = &info.2;
            ctx.violation(
                format!("C12:encode-rejected:{tag}"),
                format!("example for id {id} seed {seed} does not encode against its own type: {}", e.chars().take(200).collect::<String>()),
                replay(),
            );
            return false;
        }
        Ok(Ok(())) => {}
    }
    let mut cur = &bytes[..];
    let dec = guard(|| scale_value::scale::decode_as_type(&mut cur, id, r).map(|v| v.remove_context()).map_err(|e| e.to_string()));
    match dec {
        Err(p) => ctx.violation(format!("C12:decode-panic:{}", p.signature()), p.msg.clone(), replay()),
        Ok(Err(e)) => ctx.violation("C12:decode-failed", format!("bytes of the example for id {id} do not decode: {e}"), replay()),
        Ok(Ok(back)) => {
            if !cur.is_empty() {
                ctx.violation("C12:decode-leftover", format!("decoding the example for id {id} leaves {} bytes", cur.len()), replay());
            } else if back != value {
                ctx.violation("C12:roundtrip-not-equal", format!("id {id} seed {seed}: decoded value differs from the example"), replay());
            } else {
                ctx.count("values_roundtripped", 1);
            }
        }
    }
    let t = r.resolve(id).unwrap();
    match &t.type_def {
        TypeDef::BitSequence(_) => ctx.count("bit_sequence_values", 1),
        TypeDef::Compact(_) => ctx.count("compact_values", 1),
        _ => {}
    }
    matches!(t.type_def, TypeDef::Composite(_) | TypeDef::Variant(_) | TypeDef::Sequence(_))
}

pub fn run_registry(ctx: &mut Ctx, r: &PortableRegistry, label: &str, seeds: u64, polkadot: bool) {
    let fp = reg::fingerprint(r);
    let regj = if polkadot { json!(null) } else { reg::to_json(r) };
    let mut memo = BTreeMap::new();
    for t in 0..r.types.len() as u32 {
        if polkadot && !ctx.mine(t as u64) {
            continue;
        }
        let info = reach_info(r, t);
        if info.3 {
            ctx.count("skipped_outside_class_compact", 1);
            continue;
        }
        let bound = unfolding(r, t, &mut Vec::new(), &mut memo);
        for s in 0..=seeds {
            // the last round is the seedless entry point
            let seed = if s == seeds { SEEDLESS } else { ctx.seed.wrapping_mul(1000).wrapping_add(s * 7919 + t as u64) };
            if seed == SEEDLESS {
                ctx.count("seedless_entry_point_calls", 1);
            }
            ctx.begin_case(&format!("{label} id {t} seed {seed}"));
            let nt = judge(ctx, r, t, seed, &info, bound, &|| {
                if polkadot {
                    json!({"kind": "c12-polkadot", "id": t, "seed": seed})
                } else {
                    json!({"kind": "c12", "registry": regj, "id": t, "seed": seed})
                }
            });
            ctx.case(hash_of(&(fp, t, seed)), nt);
        }
    }
}

pub fn run(ctx: &mut Ctx) {
    // hand-written recursive types that can terminate, used several times from one root
    for (i, prog) in recursive_gallery().into_iter().enumerate() {
        if !ctx.mine(i as u64) {
            continue;
        }
        let r = sim::simulate(&prog).registry;
        run_registry(ctx, &r, &format!("c12 gallery {i}"), ctx.tier.pick(48, 512), false);
        ctx.count("gallery_registries", 1);
    }
    let n = ctx.tier.pick(700u64, 20_000u64);
    for case in 0..n {
        if !ctx.mine(case) {
            continue;
        }
        let mut rng = ctx.rng("c12", case);
        let mut cfg = GenCfg::default();
        cfg.nested_phantom = case % 3 == 0;
        let prog = ProgGen::new(&mut rng, cfg).gen_program();
        let mut r = sim::simulate(&prog).registry;
        if case % 5 == 0 {
            for t in r.types.iter_mut() {
                if let TypeDef::Primitive(p) = &mut t.ty.type_def {
                    if *p == TypeDefPrimitive::U128 {
                        *p = TypeDefPrimitive::U256;
                    } else if *p == TypeDefPrimitive::I128 {
                        *p = TypeDefPrimitive::I256;
                    }
                }
            }
        }
        run_registry(ctx, &r, &format!("c12 case {case}"), ctx.tier.pick(4, 32), false);
        if ctx.res.samples.len() < 2 {
            let id = (r.types.len() / 2) as u32;
            if let Ok(Ok(v)) = guard(|| scale_value_from_seed(id, &r, 1)) {
                let mut b = Vec::new();
                let _ = scale_value::scale::encode_as_type(&v, id, &r, &mut b);
                ctx.sample(json!({"id": id, "type": r.resolve(id).map(|t| format!("{:?}", t.type_def).chars().take(120).collect::<String>()), "encoded": crate::mon::c01::hex(&b)}));
            }
        }
    }
    let polka = reg::load_polkadot();
    run_registry(ctx, &polka, "c12 polkadot", ctx.tier.pick(2, 8), true);
}

pub fn replay(ctx: &mut Ctx, v: &serde_json::Value) {
    let id = v["id"].as_u64().unwrap_or(0) as u32;
    let seed = v["seed"].as_u64().unwrap_or(0);
    let r = if v["kind"].as_str() == Some("c12-polkadot") { reg::load_polkadot() } else { reg::from_json(&v["registry"]) };
    let info = reach_info(&r, id);
    let bound = unfolding(&r, id, &mut Vec::new(), &mut BTreeMap::new());
    let vv = v.clone();
    let nt = judge(ctx, &r, id, seed, &info, bound, &move || vv.clone());
    ctx.case(0, nt);
}

//! C14 — Rust value examples conform to the generated type definitions.

use crate::bisim::prim_name;
use crate::cmodel::*;
use crate::ev::*;
use crate::gen::*;
use crate::prog::*;
use crate::reg;
use crate::sdesc::SDesc;
use crate::sim;
use scale_info::{form::PortableForm, Field, PortableRegistry, TypeDef, TypeDefPrimitive};
use scale_typegen_description::{rust_value, rust_value_from_seed};
use serde_json::json;

pub const META: PropMeta = PropMeta {
    id: "C14",
    level: "exploration",
    rule: "cases = (registry without bit sequences and 256-bit integers, id, seed, path settings): simulator programs (all primitives, unit / one-element tuples, arrays incl. > 32 elements and non-Copy elements, compact fields explicit and by attribute, unused type parameters in named / tuple / field-less structs and in enums, prelude composites), every id, 3 (quick) / 16 (thorough) seeds, 3 settings (root name, alloc path, compact path); plus the hand-written gallery of recursive types that can terminate (see C12) with 48 / 512 seeds. Oracle: the returned tokens must parse as syn::Expr and are read in lockstep with the registry and the item the generator emits for the same id, checking exactly the enumerated clauses: literal path == resolve_type_path(id) without generics (+ ::Variant); field names and arity == the emitted item's, including the marker for unused parameters; literal suffix == the primitive's type (bool / char literals, \"..\".into() for strings); tuple / array / vec arity, a one-element tuple must be a tuple; same seed => same tokens; no panic (errors are fine); bounded progress (restating 'recursion yields an error rather than a crash'): transformer resolve calls <= 4x the oracle's unfolding size of the type + 8 (sequences x2, arrays x max(len,1), enums = largest variant, cut at the first revisit of an in-progress id). Accepted: Compact(..) around a value at any compact position, bare None, no Box::new, prelude composites checked against the registry's field list only. non-trivial = a returned example for a generated struct/enum; distinct by (registry hash, id, seed, settings).",
    assumptions: &["only the clauses enumerated in the statement are checked"],
    required_counters: &["examples_read", "struct_literals", "variant_literals", "markers_expected", "one_tuples", "arrays", "vecs", "primitive_literals[u16]", "primitive_literals[i8]", "primitive_literals[str]", "same_seed_compared", "resolve_calls_observed", "gallery_registries"],
    floor: (3000, 100_000),
    shards: (16, 16),
};

struct Rd<'a> {
    reg: &'a PortableRegistry,
    cm: &'a CModel,
    d: &'a SDesc,
    settings: &'a scale_typegen::TypeGeneratorSettings,
    counts: std::collections::BTreeMap<String, u64>,
}

type R = Result<(), (String, String)>;

fn err(kind: &str, msg: String) -> R {
    Err((kind.to_string(), msg))
}

fn strip_generics_tokens(ts: &proc_macro2::TokenStream) -> String {
    let mut out = String::new();
    for t in ts.clone() {
        if let proc_macro2::TokenTree::Punct(p) = &t {
            if p.as_char() == '<' {
                break;
            }
        }
        out.push_str(&t.to_string());
    }
    nows(&out)
}

fn is_phantom_expr(e: &syn::Expr) -> bool {
    matches!(e, syn::Expr::Path(p) if p.path.segments.last().map(|s| s.ident == "PhantomData").unwrap_or(false))
}

impl<'a> Rd<'a> {
    fn bump(&mut self, k: &str) {
        *self.counts.entry(k.to_string()).or_insert(0) += 1;
    }

    fn expected_path(&self, id: u32) -> Option<String> {
        match resolve_path(self.reg, self.settings, id) {
            Ok(Ok(ts)) => Some(strip_generics_tokens(&ts)),
            _ => None,
        }
    }

    /// the emitted item for a generated registry type (None: prelude / substituted)
    fn item(&self, id: u32) -> Option<&'a Item> {
        let t = self.reg.resolve(id)?;
        if t.path.segments.len() < 2 {
            return None;
        }
        let mut p = vec![self.d.root.clone()];
        p.extend(t.path.segments.iter().cloned());
        self.cm.items.get(&p)
    }

    fn value(&mut self, e: &syn::Expr, id: u32, depth: usize) -> R {
        if depth > 200 {
            return err("too-deep", "nesting".into());
        }
        let t = self.reg.resolve(id).ok_or(("missing-id".to_string(), format!("{id}")))?;
        // parentheses around a non-tuple value carry no meaning
        match &t.type_def {
            TypeDef::Primitive(p) => self.prim(e, p),
            TypeDef::Compact(c) => {
                // accepted with or without a Compact(..) wrapper
                if let syn::Expr::Call(call) = e {
                    if matches!(&*call.func, syn::Expr::Path(p) if p.path.segments.last().map(|s| s.ident == "Compact").unwrap_or(false)) && call.args.len() == 1 {
                        return self.value(&call.args[0], c.type_param.id, depth + 1);
                    }
                }
                self.value(e, c.type_param.id, depth + 1)
            }
            TypeDef::Sequence(s) => {
                let syn::Expr::Macro(m) = e else {
                    return err("vec-form", format!("sequence value is not a vec![..]: `{}`", nows(&ts(e))));
                };
                if !m.mac.path.is_ident("vec") {
                    return err("vec-form", format!("sequence value uses macro `{}`", ts(&m.mac.path)));
                }
                let elems = m
                    .mac
                    .parse_body_with(syn::punctuated::Punctuated::<syn::Expr, syn::Token![,]>::parse_terminated)
                    .map_err(|e| ("vec-form".to_string(), format!("vec! body: {e}")))?;
                self.bump("vecs");
                for x in elems.iter() {
                    self.value(x, s.type_param.id, depth + 1)?;
                }
                Ok(())
            }
            TypeDef::Array(a) => {
                self.bump("arrays");
                match e {
                    syn::Expr::Repeat(r) => {
                        let n = match &*r.len {
                            syn::Expr::Lit(syn::ExprLit { lit: syn::Lit::Int(i), .. }) => i.base10_parse::<u64>().ok(),
                            _ => None,
                        };
                        if n != Some(a.len as u64) {
                            return err("array-arity", format!("array of length {} rendered with repeat count `{}`", a.len, nows(&ts(&r.len))));
                        }
                        self.value(&r.expr, a.type_param.id, depth + 1)
                    }
                    syn::Expr::Array(arr) => {
                        if arr.elems.len() != a.len as usize {
                            return err("array-arity", format!("array of length {} rendered with {} elements", a.len, arr.elems.len()));
                        }
                        for x in arr.elems.iter() {
                            self.value(x, a.type_param.id, depth + 1)?;
                        }
                        Ok(())
                    }
                    other => err("array-form", format!("array value is `{}`", nows(&ts(other)))),
                }
            }
            TypeDef::Tuple(tu) => {
                if tu.fields.len() == 1 {
                    self.bump("one_tuples");
                }
                match e {
                    syn::Expr::Tuple(t) => {
                        if t.elems.len() != tu.fields.len() {
                            return err("tuple-arity", format!("tuple of arity {} rendered with {} elements", tu.fields.len(), t.elems.len()));
                        }
                        for (x, f) in t.elems.iter().zip(tu.fields.iter()) {
                            self.value(x, f.id, depth + 1)?;
                        }
                        Ok(())
                    }
                    syn::Expr::Paren(_) if tu.fields.len() == 1 => {
                        err("one-tuple-not-a-tuple", format!("one-element tuple rendered as parenthesised expression `{}`", nows(&ts(e))))
                    }
                    other => err("tuple-form", format!("tuple value is `{}`", nows(&ts(other)))),
                }
            }
            TypeDef::BitSequence(_) => err("out-of-class", "bit sequence".into()),
            TypeDef::Composite(c) => {
                let generated = t.path.segments.len() >= 2;
                let item = self.item(id);
                let want_path = if generated && item.is_some() { self.expected_path(id) } else { None };
                let marker: Option<Option<String>> = item.and_then(|it| match &it.kind {
                    ItemKind::Struct(f) => f
                        .fields
                        .iter()
                        .find(|f| matches!(Classifier::new(self.d).classify(&f.ty), CHead::Phantom(_)))
                        .map(|f| f.name.clone()),
                    _ => None,
                });
                if marker.is_some() {
                    self.bump("markers_expected");
                }
                self.bump("struct_literals");
                if !generated {
                    // prelude composites have no generated item: only the registry's field list
                    // is checked, a trailing PhantomData argument is tolerated
                    if let syn::Expr::Call(call) = e {
                        if call.args.len() == c.fields.len() + 1 && call.args.last().map(is_phantom_expr).unwrap_or(false) {
                            let mut trimmed = call.clone();
                            trimmed.args.pop();
                            return self.fields_expr(&syn::Expr::Call(trimmed), &c.fields, None, None, depth);
                        }
                    }
                    if let syn::Expr::Struct(st) = e {
                        if st.fields.len() == c.fields.len() + 1 && st.fields.last().map(|f| is_phantom_expr(&f.expr)).unwrap_or(false) {
                            let mut trimmed = st.clone();
                            trimmed.fields.pop();
                            return self.fields_expr(&syn::Expr::Struct(trimmed), &c.fields, None, None, depth);
                        }
                    }
                }
                self.fields_expr(e, &c.fields, want_path.as_deref(), marker, depth)
            }
            TypeDef::Variant(v) => {
                self.bump("variant_literals");
                // bare `None`
                if let syn::Expr::Path(p) = e {
                    if p.path.is_ident("None") && t.path.segments == ["Option"] {
                        return Ok(());
                    }
                }
                let generated = t.path.segments.len() >= 2;
                let base = if generated && self.item(id).is_some() { self.expected_path(id) } else { None };
                // find the variant by the last path segment of the literal
                let lit_path: &syn::Path = match e {
                    syn::Expr::Struct(s) => &s.path,
                    syn::Expr::Call(c) => match &*c.func {
                        syn::Expr::Path(p) => &p.path,
                        other => return err("variant-form", format!("variant constructor is `{}`", nows(&ts(other)))),
                    },
                    syn::Expr::Path(p) => &p.path,
                    other => return err("variant-form", format!("variant value is `{}`", nows(&ts(other)))),
                };
                let vname = lit_path.segments.last().map(|s| s.ident.to_string()).unwrap_or_default();
                let Some(var) = v.variants.iter().find(|x| x.name == vname) else {
                    return err("variant-name", format!("`{vname}` is not a variant of {}", t.path.segments.join("::")));
                };
                let want = base.map(|b| format!("{b}::{vname}"));
                self.fields_expr(e, &var.fields, want.as_deref(), None, depth)
            }
        }
    }

    fn fields_expr(&mut self, e: &syn::Expr, fields: &[Field<PortableForm>], want_path: Option<&str>, marker: Option<Option<String>>, depth: usize) -> R {
        let check_path = |p: &syn::Path| -> R {
            if let Some(w) = want_path {
                let got = nows(&ts(p));
                if got != w {
                    return err("literal-path", format!("literal path `{got}`, generated path `{w}`"));
                }
            }
            Ok(())
        };
        let named = fields.first().map(|f| f.name.is_some()).unwrap_or(false);
        if fields.is_empty() {
            return match (e, &marker) {
                (syn::Expr::Path(p), None) => check_path(&p.path),
                (syn::Expr::Call(c), Some(_)) if c.args.len() == 1 && is_phantom_expr(&c.args[0]) => match &*c.func {
                    syn::Expr::Path(p) => check_path(&p.path),
                    _ => err("struct-form", "constructor is not a path".into()),
                },
                (_, Some(_)) => err("marker-missing", format!("the generated item has a marker for unused parameters, the example is `{}`", nows(&ts(e)).chars().take(120).collect::<String>())),
                (other, None) => {
                    // `Foo {}` / `Foo()` are not produced; anything else is a mismatch
                    err("struct-form", format!("field-less value rendered as `{}`", nows(&ts(other)).chars().take(120).collect::<String>()))
                }
            };
        }
        if named {
            let syn::Expr::Struct(s) = e else {
                return err("struct-form", format!("named-field value is `{}`", nows(&ts(e)).chars().take(120).collect::<String>()));
            };
            check_path(&s.path)?;
            let mut vals: Vec<(&syn::Member, &syn::Expr)> = s.fields.iter().map(|f| (&f.member, &f.expr)).collect();
            if let Some(mname) = &marker {
                let Some((m, v)) = vals.pop() else {
                    return err("marker-missing", "no fields at all".into());
                };
                let got = match m {
                    syn::Member::Named(i) => i.to_string(),
                    syn::Member::Unnamed(i) => i.index.to_string(),
                };
                let want = mname.clone().unwrap_or_default();
                if !is_phantom_expr(v) {
                    return err("marker-missing", format!("last field `{got}` is not the PhantomData marker `{want}`"));
                }
                if got != want {
                    return err("marker-name", format!("marker field is named `{got}`, the generated item calls it `{want}`"));
                }
            }
            if vals.len() != fields.len() {
                return err("field-arity", format!("{} fields in the literal, {} in the definition", vals.len(), fields.len()));
            }
            for ((m, v), f) in vals.iter().zip(fields.iter()) {
                let got = match m {
                    syn::Member::Named(i) => i.to_string(),
                    syn::Member::Unnamed(i) => i.index.to_string(),
                };
                if Some(&got) != f.name.as_ref() {
                    return err("field-name", format!("field `{got}` in the literal, `{:?}` in the definition", f.name));
                }
                self.value(v, f.ty.id, depth + 1)?;
            }
            Ok(())
        } else {
            let syn::Expr::Call(c) = e else {
                return err("struct-form", format!("tuple-field value is `{}`", nows(&ts(e)).chars().take(120).collect::<String>()));
            };
            match &*c.func {
                syn::Expr::Path(p) => check_path(&p.path)?,
                _ => return err("struct-form", "constructor is not a path".into()),
            }
            let mut args: Vec<&syn::Expr> = c.args.iter().collect();
            if marker.is_some() {
                match args.pop() {
                    Some(a) if is_phantom_expr(a) => {}
                    _ => return err("marker-missing", "tuple struct literal lacks the trailing PhantomData".into()),
                }
            }
            if args.len() != fields.len() {
                return err("field-arity", format!("{} fields in the literal, {} in the definition", args.len(), fields.len()));
            }
            for (a, f) in args.iter().zip(fields.iter()) {
                self.value(a, f.ty.id, depth + 1)?;
            }
            Ok(())
        }
    }

    fn prim(&mut self, e: &syn::Expr, p: &TypeDefPrimitive) -> R {
        let name = prim_name(p);
        self.bump(&format!("primitive_literals[{name}]"));
        let show = || nows(&ts(e)).chars().take(60).collect::<String>();
        match p {
            TypeDefPrimitive::Bool => match e {
                syn::Expr::Lit(syn::ExprLit { lit: syn::Lit::Bool(_), .. }) => Ok(()),
                _ => err("literal-type", format!("bool rendered as `{}`", show())),
            },
            TypeDefPrimitive::Char => match e {
                syn::Expr::Lit(syn::ExprLit { lit: syn::Lit::Char(_), .. }) => Ok(()),
                _ => err("literal-type", format!("char rendered as `{}`", show())),
            },
            TypeDefPrimitive::Str => match e {
                syn::Expr::MethodCall(m) if m.method == "into" && matches!(&*m.receiver, syn::Expr::Lit(syn::ExprLit { lit: syn::Lit::Str(_), .. })) => Ok(()),
                _ => err("literal-type", format!("string rendered as `{}`", show())),
            },
            TypeDefPrimitive::U256 | TypeDefPrimitive::I256 => err("out-of-class", "256-bit integer".into()),
            _ => {
                let inner = match e {
                    syn::Expr::Unary(u) if matches!(u.op, syn::UnOp::Neg(_)) => &*u.expr,
                    other => other,
                };
                match inner {
                    syn::Expr::Lit(syn::ExprLit { lit: syn::Lit::Int(i), .. }) => {
                        if i.suffix() == name {
                            Ok(())
                        } else {
                            err(&format!("literal-type:{name}"), format!("{name} rendered as `{}` (suffix `{}`)", show(), i.suffix()))
                        }
                    }
                    _ => err(&format!("literal-type:{name}"), format!("{name} rendered as `{}`", show())),
                }
            }
        }
    }
}

pub fn judge_registry(ctx: &mut Ctx, r: &PortableRegistry, d: &SDesc, seeds: u64, skip: &std::collections::BTreeSet<u32>, replay: &dyn Fn(u32, u64) -> serde_json::Value) {
    let (gen, _) = generate_model(r, d);
    let Ok(gen) = gen else {
        ctx.count("generation_failed", 1);
        return;
    };
    let settings = d.build();
    let fp = reg::fingerprint(r);
    let dh = hash_of(&serde_json::to_string(d).unwrap());
    let mut bounds: std::collections::BTreeMap<u32, u64> = Default::default();
    for t in &r.types {
        let id = t.id;
        // class: no bit sequences / 256-bit integers below the id
        let below = reg::reachable(r, &[id], false, true);
        if below.iter().filter_map(|i| r.resolve(*i)).any(|t| matches!(t.type_def, TypeDef::BitSequence(_) | TypeDef::Primitive(TypeDefPrimitive::U256 | TypeDefPrimitive::I256))) {
            ctx.count("skipped_out_of_class", 1);
            continue;
        }
        // an entry whose family was merged under a parameter coincidence (C03's known finding)
        // has no item of its own to be compared with
        if skip.contains(&id) {
            ctx.count("skipped_conflated_family", 1);
            continue;
        }
        for s in 0..=seeds {
            // the last round is the seedless convenience entry point `rust_value(id, types, settings)`
            let seedless = s == seeds;
            let seed = if seedless { u64::MAX } else { ctx.seed.wrapping_mul(977).wrapping_add(s * 31 + id as u64) };
            let rust_value_from_seed = |id: u32, r: &PortableRegistry, st: &scale_typegen::TypeGeneratorSettings, seed: u64, _a: Option<()>, _b: Option<()>| {
                if seed == u64::MAX {
                    rust_value(id, r, st)
                } else {
                    rust_value_from_seed(id, r, st, seed, None, None)
                }
            };
            if seedless {
                ctx.count("seedless_entry_point_calls", 1);
            }
            ctx.begin_case(&format!("c14 id {id} seed {seed}"));
            // bounded progress (restating "recursion yields an error rather than a crash"): the
            // transformer may be asked to resolve at most a small multiple of the oracle's unfolding
            // size of the type (C12's bound; the Rust example resolves a subset of what the SCALE
            // example resolves: array elements once, sequence elements twice)
            let bound = *bounds.entry(id).or_insert_with(|| crate::mon::c12::unfolding_with(r, id, &mut Vec::new(), &mut Default::default(), 1));
            scale_typegen::verif_hooks::start();
            scale_typegen::verif_hooks::set_budget(Some(bound.saturating_mul(400).saturating_add(20_000).min(20_000_000)));
            let got = guard(|| rust_value_from_seed(id, r, &settings, seed, None, None));
            scale_typegen::verif_hooks::set_budget(None);
            let events = scale_typegen::verif_hooks::take();
            let resolves = events.iter().filter(|e| matches!(e.tag, "tf:miss" | "tf:hit-in-progress" | "tf:hit-computed")).count() as u64;
            ctx.count("resolve_calls_observed", resolves);
            if bound < 50_000_000 && resolves > bound.saturating_mul(4) + 8 {
                ctx.violation("C14:progress-bound", format!("Rust example for id {id} seed {seed}: {resolves} resolve calls, oracle unfolding {bound}"), replay(id, seed));
                continue;
            }
            let tokens = match got {
                Err(p) if p.msg.contains("event budget exceeded") => {
                    ctx.violation("C14:progress-bound", format!("rust_value_from_seed({id}) did not finish within 2*10^7 hook events"), replay(id, seed));
                    continue;
                }
                Err(p) => {
                    ctx.violation(format!("C14:panic:{}", p.signature()), format!("rust_value_from_seed({id}) panicked: {}", p.msg), replay(id, seed));
                    continue;
                }
                Ok(Err(_)) => {
                    ctx.count("example_errors", 1);
                    ctx.case(hash_of(&(fp, id, seed, dh)), false);
                    continue;
                }
                Ok(Ok(ts)) => ts,
            };
            if let Ok(Ok(again)) = guard(|| rust_value_from_seed(id, r, &settings, seed, None, None)) {
                ctx.count("same_seed_compared", 1);
                if again.to_string() != tokens.to_string() {
                    ctx.violation("C14:same-seed-different-example", format!("id {id} seed {seed}"), replay(id, seed));
                }
            }
            // middlewares that change nothing (never intercept a type, return every path as it is)
            // must give the very same example
            if s == 0 && !seedless {
                let with_mw = guard(|| {
                    scale_typegen_description::rust_value_from_seed(
                        id,
                        r,
                        &settings,
                        seed,
                        Some(Box::new(|_, _| None)),
                        Some(Box::new(|p| p)),
                    )
                });
                if let Ok(Ok(mw)) = with_mw {
                    ctx.count("identity_middleware_compared", 1);
                    if mw.to_string() != tokens.to_string() {
                        ctx.violation("C14:identity-middleware-changes-example", format!("id {id} seed {seed}: `{}` vs `{}`", mw.to_string().chars().take(160).collect::<String>(), tokens.to_string().chars().take(160).collect::<String>()), replay(id, seed));
                    }
                } else {
                    ctx.violation("C14:identity-middleware-changes-example", format!("id {id} seed {seed}: the call with identity middlewares fails while the plain call returns an example"), replay(id, seed));
                }
            }
            let expr: syn::Expr = match syn::parse2(tokens.clone()) {
                Ok(e) => e,
                Err(e) => {
                    ctx.violation("C14:not-an-expression", format!("example for id {id} does not parse as an expression: {e}; tokens `{}`", tokens.to_string().chars().take(200).collect::<String>()), replay(id, seed));
                    continue;
                }
            };
            let mut rd = Rd { reg: r, cm: &gen.cm, d, settings: &settings, counts: Default::default() };
            let res = rd.value(&expr, id, 0);
            for (k, v) in rd.counts {
                ctx.count(&k, v);
            }
            ctx.count("examples_read", 1);
            match res {
                Ok(()) => {}
                Err((kind, _)) if kind == "out-of-class" => ctx.count("skipped_out_of_class", 1),
                Err((kind, msg)) => ctx.violation(
                    format!("C14:{kind}"),
                    format!("example for id {id} ({}) seed {seed}: {msg}", t.ty.path.segments.join("::")),
                    replay(id, seed),
                ),
            }
            ctx.case(hash_of(&(fp, id, seed, dh)), reg::is_generated(&t.ty));
        }
    }
}

fn settings_variants(r: &PortableRegistry, k: usize) -> SDesc {
    let mut d = SDesc::default();
    let segs = crate::settingsgen::segments_of(r);
    let roots = ["types", "root", "runtime_types"];
    d.root = roots.iter().cycle().skip(k).find(|x| !segs.contains(**x)).unwrap().to_string();
    d.alloc = [None, Some("::alloc".to_string()), None][k % 3].clone();
    d.compact_path = Some(["::parity_scale_codec::Compact", "Compact", "::subxt::ext::codec::Compact"][k % 3].to_string());
    d
}

pub fn run(ctx: &mut Ctx) {
    for (i, prog) in recursive_gallery().into_iter().enumerate() {
        if !ctx.mine(i as u64) {
            continue;
        }
        let r = sim::simulate(&prog).registry;
        let d = settings_variants(&r, i % 3);
        let regj = reg::to_json(&r);
        let dj = serde_json::to_value(&d).unwrap();
        judge_registry(ctx, &r, &d, ctx.tier.pick(48, 512), &Default::default(), &|id, seed| json!({"kind": "c14", "registry": regj, "sdesc": dj, "id": id, "seed": seed}));
        ctx.count("gallery_registries", 1);
    }
    let n = ctx.tier.pick(500u64, 15_000u64);
    for case in 0..n {
        if !ctx.mine(case) {
            continue;
        }
        let mut rng = ctx.rng("c14", case);
        let mut cfg = GenCfg::default();
        cfg.allow_bitvec = false;
        cfg.max_insts = 2;
        let prog = ProgGen::new(&mut rng, cfg).gen_program();
        let out = sim::simulate(&prog);
        let mut r = out.registry.clone();
        if !matches!(guard(|| scale_typegen::utils::ensure_unique_type_paths(&mut r)), Ok(Ok(()))) {
            continue;
        }
        if case % 3 == 1 {
            // the derive records type names as they were written: `codec::Compact<u32>` just as well
            // as `Compact<u32>` (the registry's types are the same)
            let mut n = 0u64;
            for t in r.types.iter_mut() {
                let mut fix = |fs: &mut Vec<Field<PortableForm>>| {
                    for f in fs.iter_mut() {
                        if let Some(tn) = &mut f.type_name {
                            if tn.contains("Compact<") {
                                *tn = tn.replace("Compact<", "codec::Compact<");
                                n += 1;
                            }
                        }
                    }
                };
                match &mut t.ty.type_def {
                    TypeDef::Composite(c) => fix(&mut c.fields),
                    TypeDef::Variant(v) => v.variants.iter_mut().for_each(|v| fix(&mut v.fields)),
                    _ => {}
                }
            }
            ctx.count("qualified_compact_type_names", n);
        }
        let d = settings_variants(&r, (case % 3) as usize);
        let regj = reg::to_json(&r);
        let dj = serde_json::to_value(&d).unwrap();
        let noncf: std::collections::BTreeSet<u32> =
            sim::cf_source(&prog, &out).iter().filter(|(_, x)| x.is_some()).map(|(i, _)| *i).collect();
        let tainted = reg::tainted_by_coincidence(&out.registry, &noncf);
        // members of tainted families (by their original paths) other than the first one, and
        // everything that reaches one
        let mut later: std::collections::BTreeSet<u32> = Default::default();
        for ids in reg::families(&out.registry).values() {
            if ids.iter().any(|i| tainted.contains(i)) {
                later.extend(ids.iter().skip(1).copied());
            }
        }
        let skip: std::collections::BTreeSet<u32> = r
            .types
            .iter()
            .filter(|t| reg::reachable(&r, &[t.id], true, true).iter().any(|i| later.contains(i)))
            .map(|t| t.id)
            .collect();
        judge_registry(ctx, &r, &d, ctx.tier.pick(3, 16), &skip, &|id, seed| json!({"kind": "c14", "registry": regj, "sdesc": dj, "id": id, "seed": seed}));
        if ctx.res.samples.len() < 3 {
            let id = (r.types.len() / 3) as u32;
            if let Ok(Ok(ts)) = guard(|| rust_value_from_seed(id, &r, &d.build(), 1, None, None)) {
                ctx.sample(json!({"id": id, "type_path": r.resolve(id).map(|t| t.path.segments.join("::")), "example": ts.to_string().chars().take(300).collect::<String>()}));
            }
        }
    }
}

pub fn replay(ctx: &mut Ctx, v: &serde_json::Value) {
    let r = reg::from_json(&v["registry"]);
    let d: SDesc = serde_json::from_value(v["sdesc"].clone()).expect("sdesc");
    let id = v["id"].as_u64().unwrap_or(0) as u32;
    let seed = v["seed"].as_u64().unwrap_or(0);
    // re-run exactly this (id, seed)
    let (gen, _) = generate_model(&r, &d);
    let Ok(gen) = gen else { return };
    let settings = d.build();
    match guard(|| if seed == u64::MAX { rust_value(id, &r, &settings) } else { rust_value_from_seed(id, &r, &settings, seed, None, None) }) {
        Err(p) => ctx.violation(format!("C14:panic:{}", p.signature()), p.msg.clone(), v.clone()),
        Ok(Err(_)) => {}
        Ok(Ok(tokens)) => match syn::parse2::<syn::Expr>(tokens) {
            Err(e) => ctx.violation("C14:not-an-expression", format!("{e}"), v.clone()),
            Ok(expr) => {
                let mut rd = Rd { reg: &r, cm: &gen.cm, d: &d, settings: &settings, counts: Default::default() };
                if let Err((kind, msg)) = rd.value(&expr, id, 0) {
                    if kind != "out-of-class" {
                        ctx.violation(format!("C14:{kind}"), msg, v.clone());
                    }
                }
                for (k, n) in rd.counts {
                    ctx.count(&k, n);
                }
            }
        },
    }
    ctx.count("examples_read", 1);
    ctx.case(0, true);
}

//! C16 — settings builders behave as set/map accumulators over any call history.

use crate::cmodel::{nows, ts, CModel};
use crate::ev::*;
use crate::prog::*;
use crate::sdesc::{attr, p};
use crate::settingsgen::{ATTR_POOL, DERIVE_POOL};
use crate::sim;
use rand::seq::SliceRandom;
use rand::Rng;
use scale_info::PortableRegistry;
use scale_typegen::typegen::error::TypeSubstitutionErrorKind;
use scale_typegen::typegen::ir::ToTokensWithSettings;
use scale_typegen::typegen::settings::substitutes::absolute_path;
use scale_typegen::{DerivesRegistry, TypeGenerator, TypeGeneratorSettings, TypeSubstitutes};
use serde::{Deserialize, Serialize};
use serde_json::json;
use std::collections::{BTreeMap, BTreeSet};

pub const META: PropMeta = PropMeta {
    id: "C16",
    level: "exploration",
    rule: "cases = histories of 1..60 public builder calls over 5 probe paths and 4 substitute source paths: add_derives_for_all, add_attributes_for_all, add_derives_for / add_attributes_for x {specific, recursive}, TypeSubstitutes::{insert, insert_if_not_exists, extend} with valid arguments and with exactly one malformation per call (relative target, parenthesised generics on source or target, lifetime / absolute path / multi-segment path / qualified-self / nested-generic source argument, empty source path, empty target path, lifetime / tuple / array target argument), repeated and interleaved. Oracle: a sequential BTreeMap/BTreeSet model replayed over the same history: (a) the derive and attribute sets emitted on every item of a fixed probe registry (Top -> Mid -> Leaf, Other; Alone; a field-less Unit; Basket -> Wrap<Apple>, Wrap<Pear>) must equal global + own path + recursive-from-ancestors, sorted and duplicate-free; (b) TypeSubstitutes::iter()/contains() must equal the model map (last insert/extend wins, insert_if_not_exists never replaces, key = path segments without generics); (c) each malformed call must be rejected with the documented error kind; (d) a rejected call must leave iter() unchanged. non-trivial = history with >= 1 rejected call and >= 1 overwrite; distinct by history hash.",
    assumptions: &["extend is modelled as sequential inserts that stop at the first rejected element"],
    required_counters: &["calls[insert]", "calls[insert_if_not_exists]", "calls[extend]", "calls[add_derives_for]", "rejected[ExpectedAbsolutePath]", "rejected[ExpectedAngleBracketGenerics]", "rejected[InvalidFromType]", "rejected[InvalidToType]", "rejected[EmptySubstitutePath]", "overwrites", "insert_if_not_exists_kept_old"],
    floor: (1500, 50_000),
    shards: (8, 16),
};

#[derive(Clone, Debug, Serialize, Deserialize)]
pub enum Op {
    DerivesAll(Vec<String>),
    AttrsAll(Vec<String>),
    DerivesFor(String, Vec<String>, bool),
    AttrsFor(String, Vec<String>, bool),
    Insert(String, String),
    InsertIfNotExists(String, String),
    Extend(Vec<(String, String)>),
}

const PROBE_PATHS: [&str; 12] = ["krate::p::Top", "krate::p::Mid", "krate::p::Leaf", "krate::p::Other", "krate::p::Alone", "krate::p::Unit", "krate::p::Unknown", "krate::p::Unit", "krate::p::Basket", "krate::p::Wrap", "krate::p::Pear", "krate::p::Apple"];
const SRC_PATHS: [&str; 4] = ["krate::p::Other", "krate::p::Leaf", "x::Y", "Option"];

pub fn probe_program() -> Program {
    let f = |n: &str, t: Ty| FieldDecl { name: Some(n.into()), ty: t, compact: false, skip: false, docs: vec![] };
    let mk = |name: &str, fields: Vec<FieldDecl>| Def {
        module: vec!["p".into()],
        name: name.into(),
        params: vec![],
        kind: DefKind::Struct(Style::Named, fields),
        docs: vec![],
    };
    // indices: 0 Leaf, 1 Other, 2 Mid, 3 Top, 4 Alone
    let defs = vec![
        mk("Leaf", vec![f("a", Ty::Prim(Prim::U8)), f("b", Ty::Prim(Prim::Bool))]),
        mk("Other", vec![f("x", Ty::Prim(Prim::U32)), f("y", Ty::Str)]),
        mk("Mid", vec![f("l", Ty::Def(0, vec![])), f("o", Ty::Option(Ty::Def(1, vec![]).b()))]),
        mk("Top", vec![f("m", Ty::Def(2, vec![])), f("v", Ty::Vec(Ty::Tuple(vec![Ty::Def(0, vec![]), Ty::Prim(Prim::U8)]).b()))]),
        mk("Alone", vec![f("y", Ty::Prim(Prim::U16)), f("z", Ty::Prim(Prim::U16))]),
        // a field-less type: a recursive registration on it reaches nothing but the type itself
        Def { module: vec!["p".into()], name: "Unit".into(), params: vec![], kind: DefKind::Struct(Style::Unit, vec![]), docs: vec![] },
        // 6, 7, 8, 9: one generic with two instantiations, each the only way to its argument
        mk("Apple", vec![f("a", Ty::Prim(Prim::U8))]),
        mk("Pear", vec![f("p", Ty::Prim(Prim::U16))]),
        Def {
            module: vec!["p".into()],
            name: "Wrap".into(),
            params: vec![ParamDecl { name: "T".into(), skipped: false, cfg: false, uint: false }],
            kind: DefKind::Struct(Style::Named, vec![f("inner", Ty::Param(0)), f("n", Ty::Prim(Prim::U32))]),
            docs: vec![],
        },
        mk("Basket", vec![f("first", Ty::Def(8, vec![Ty::Def(6, vec![])])), f("second", Ty::Option(Ty::Def(8, vec![Ty::Def(7, vec![])]).b()))]),
    ];
    Program { krate: "krate".into(), defs, markers: vec![], roots: vec![Ty::Def(3, vec![]), Ty::Def(4, vec![]), Ty::Def(5, vec![]), Ty::Def(9, vec![])], prefix: vec![] }
}

fn ancestors_or_self(path: &str) -> Vec<&'static str> {
    match path {
        "krate::p::Top" => vec!["krate::p::Top"],
        "krate::p::Mid" => vec!["krate::p::Mid", "krate::p::Top"],
        "krate::p::Leaf" => vec!["krate::p::Leaf", "krate::p::Mid", "krate::p::Top"],
        "krate::p::Other" => vec!["krate::p::Other", "krate::p::Mid", "krate::p::Top"],
        "krate::p::Alone" => vec!["krate::p::Alone"],
        "krate::p::Unit" => vec!["krate::p::Unit"],
        "krate::p::Basket" => vec!["krate::p::Basket"],
        "krate::p::Wrap" => vec!["krate::p::Wrap", "krate::p::Basket"],
        "krate::p::Apple" => vec!["krate::p::Apple", "krate::p::Wrap", "krate::p::Basket"],
        "krate::p::Pear" => vec!["krate::p::Pear", "krate::p::Wrap", "krate::p::Basket"],
        _ => vec![],
    }
}

fn malformed<R: Rng>(rng: &mut R, src: &str, i: usize) -> (String, String, &'static str) {
    match rng.gen_range(0..13) {
        9 => (format!("{src}<a::B>"), format!("::ext::T{i}"), "InvalidFromType"),
        10 => (format!("{src}<<A as Tr>::X>"), format!("::ext::T{i}"), "InvalidFromType"),
        11 => ("<empty>".to_string(), format!("::ext::T{i}"), "EmptySubstitutePath"),
        12 => (src.to_string(), "<::empty>".to_string(), "EmptySubstitutePath"),
        0 => {
            // relative targets, among them first segments that merely begin like `crate`
            let first = ["ext", "crate_utils", "crates", "crate2", "self", "super", "krate", "Crate"][rng.gen_range(0..8)];
            (src.to_string(), format!("{first}::T{i}"), "ExpectedAbsolutePath")
        }
        1 => (format!("{src}(A)"), format!("::ext::T{i}"), "ExpectedAngleBracketGenerics"),
        2 => (src.to_string(), format!("::ext::T{i}(A)"), "ExpectedAngleBracketGenerics"),
        3 => (format!("{src}<'a>"), format!("::ext::T{i}"), "InvalidFromType"),
        4 => (format!("{src}<::x::Y>"), format!("::ext::T{i}"), "InvalidFromType"),
        5 => (format!("{src}<Vec<A>>"), format!("::ext::T{i}<A>"), "InvalidFromType"),
        6 => (format!("{src}<A>"), format!("::ext::T{i}<'a>"), "InvalidToType"),
        7 => (format!("{src}<A, B>"), format!("::ext::T{i}<(A, B)>"), "InvalidToType"),
        _ => (format!("{src}<A>"), format!("::ext::T{i}<[A; 2]>"), "InvalidToType"),
    }
}

pub fn gen_history<R: Rng>(rng: &mut R) -> Vec<Op> {
    let n = rng.gen_range(1..=60);
    let pick = |rng: &mut R, pool: &[&str], k: usize| -> Vec<String> {
        let mut p = pool.to_vec();
        p.shuffle(rng);
        p[..k.min(p.len())].iter().map(|s| s.to_string()).collect()
    };
    let mut ops = Vec::new();
    for i in 0..n {
        let valid_pair = |rng: &mut R, i: usize| -> (String, String) {
            let src = SRC_PATHS.choose(rng).unwrap();
            match rng.gen_range(0..4) {
                0 => (src.to_string(), format!("::ext::T{i}")),
                1 => (format!("{src}<A, B>"), format!("::ext::T{i}<B, A>")),
                2 => (format!("{src}<A>"), format!("::ext::T{i}<::w::W<A>, u8>")),
                _ => (src.to_string(), format!("crate::local::T{i}")),
            }
        };
        let maybe_bad = |rng: &mut R, i: usize| -> (String, String) {
            if rng.gen_bool(0.25) {
                let src = *SRC_PATHS.choose(rng).unwrap();
                let (s, t, _) = malformed(rng, src, i);
                (s, t)
            } else {
                valid_pair(rng, i)
            }
        };
        let op = match rng.gen_range(0..10) {
            0 => {
                let k = rng.gen_range(0..=3);
                Op::DerivesAll(pick(rng, &DERIVE_POOL, k))
            }
            1 => {
                let k = rng.gen_range(0..=2);
                Op::AttrsAll(pick(rng, &ATTR_POOL, k))
            }
            2 | 3 => {
                let k = rng.gen_range(0..=3);
                let path = PROBE_PATHS.choose(rng).unwrap().to_string();
                let d = pick(rng, &DERIVE_POOL, k);
                Op::DerivesFor(path, d, rng.gen_bool(0.5))
            }
            4 => {
                let k = rng.gen_range(0..=2);
                let path = PROBE_PATHS.choose(rng).unwrap().to_string();
                let a = pick(rng, &ATTR_POOL, k);
                Op::AttrsFor(path, a, rng.gen_bool(0.5))
            }
            5 | 6 => {
                let (s, t) = maybe_bad(rng, i);
                Op::Insert(s, t)
            }
            7 | 8 => {
                let (s, t) = maybe_bad(rng, i);
                Op::InsertIfNotExists(s, t)
            }
            _ => Op::Extend((0..rng.gen_range(0..=3)).map(|k| maybe_bad(rng, i * 10 + k)).collect()),
        };
        ops.push(op);
    }
    ops
}

/// The documented outcome of one (source, target) pair: Ok(key, target) or the error kind.
fn model_pair(src: &str, target: &str) -> Result<(Vec<String>, String), &'static str> {
    let tp = p(target);
    let absolute = tp.leading_colon.is_some() || tp.segments.first().map(|s| s.ident == "crate").unwrap_or(false);
    if !absolute {
        return Err("ExpectedAbsolutePath");
    }
    let sp = p(src);
    if sp.segments.is_empty() || tp.segments.is_empty() {
        return Err("EmptySubstitutePath");
    }
    let args_of = |path: &syn::Path| path.segments.last().map(|s| s.arguments.clone()).unwrap_or(syn::PathArguments::None);
    match args_of(&sp) {
        syn::PathArguments::Parenthesized(_) => return Err("ExpectedAngleBracketGenerics"),
        syn::PathArguments::AngleBracketed(a) => {
            for g in &a.args {
                let ok = match g {
                    syn::GenericArgument::Type(syn::Type::Path(t)) => {
                        t.qself.is_none() && t.path.leading_colon.is_none() && t.path.segments.len() == 1 && t.path.segments[0].arguments.is_empty()
                    }
                    _ => false,
                };
                if !ok {
                    return Err("InvalidFromType");
                }
            }
        }
        syn::PathArguments::None => {}
    }
    match args_of(&tp) {
        syn::PathArguments::Parenthesized(_) => return Err("ExpectedAngleBracketGenerics"),
        syn::PathArguments::AngleBracketed(a) => {
            for g in &a.args {
                if !matches!(g, syn::GenericArgument::Type(syn::Type::Path(_))) {
                    return Err("InvalidToType");
                }
            }
        }
        syn::PathArguments::None => {}
    }
    Ok((sp.segments.iter().map(|s| s.ident.to_string()).collect(), nows(target)))
}

fn kind_name(k: &TypeSubstitutionErrorKind) -> &'static str {
    match k {
        TypeSubstitutionErrorKind::ExpectedAbsolutePath => "ExpectedAbsolutePath",
        TypeSubstitutionErrorKind::EmptySubstitutePath => "EmptySubstitutePath",
        TypeSubstitutionErrorKind::ExpectedAngleBracketGenerics => "ExpectedAngleBracketGenerics",
        TypeSubstitutionErrorKind::InvalidFromType => "InvalidFromType",
        TypeSubstitutionErrorKind::InvalidToType => "InvalidToType",
        TypeSubstitutionErrorKind::NoMatchingFromType => "NoMatchingFromType",
        _ => "Other",
    }
}

fn snapshot(s: &TypeSubstitutes) -> BTreeMap<Vec<String>, String> {
    s.iter().map(|(k, v)| (k.clone(), nows(&ts(v.path())))).collect()
}

pub fn judge(ctx: &mut Ctx, probe: &PortableRegistry, ops: &[Op], replay: &dyn Fn() -> serde_json::Value) -> bool {
    let mut derives = DerivesRegistry::new();
    let mut subs = TypeSubstitutes::new();
    // model
    let mut m_global_d: BTreeSet<String> = BTreeSet::new();
    let mut m_global_a: BTreeSet<String> = BTreeSet::new();
    let mut m_spec_d: BTreeMap<(String, bool), BTreeSet<String>> = BTreeMap::new();
    let mut m_spec_a: BTreeMap<(String, bool), BTreeSet<String>> = BTreeMap::new();
    let mut m_subs: BTreeMap<Vec<String>, String> = BTreeMap::new();
    let mut rejected = 0u64;
    let mut overwrites = 0u64;
    for (i, op) in ops.iter().enumerate() {
        // one (src, target) step against implementation and model; returns whether it was rejected
        let mut step = |ctx: &mut Ctx, subs: &mut TypeSubstitutes, m_subs: &mut BTreeMap<Vec<String>, String>, src: &str, target: &str, if_absent: bool| -> bool {
            let before = snapshot(subs);
            let expected = model_pair(src, target);
            let got: Result<(), &'static str> = match guard(|| match absolute_path(p(target)) {
                Err(e) => Err(kind_name(&e.kind)),
                Ok(abs) => {
                    let r = if if_absent {
                        subs.insert_if_not_exists(p(src), abs)
                    } else {
                        subs.insert(p(src), abs)
                    };
                    r.map_err(|e| kind_name(&e.kind))
                }
            }) {
                Ok(r) => r,
                Err(pn) => {
                    ctx.violation(format!("C16:panic:{}", pn.signature()), format!("call {i} ({src} -> {target}) panicked: {}", pn.msg), replay());
                    return true;
                }
            };
            match (&expected, &got) {
                (Ok((key, tgt)), Ok(())) => {
                    if if_absent && m_subs.contains_key(key) {
                        ctx.count("insert_if_not_exists_kept_old", 1);
                    } else {
                        if m_subs.contains_key(key) {
                            overwrites += 1;
                        }
                        m_subs.insert(key.clone(), tgt.clone());
                    }
                    false
                }
                (Err(kind), Err(k)) => {
                    ctx.count(&format!("rejected[{kind}]"), 1);
                    if kind != k {
                        ctx.violation(
                            format!("C16:wrong-error-kind:{kind}"),
                            format!("call {i} ({src} -> {target}) must be rejected with {kind}, got {k}"),
                            replay(),
                        );
                    }
                    if snapshot(subs) != before {
                        ctx.violation("C16:rejected-call-changed-rules", format!("call {i} ({src} -> {target}) was rejected but changed the rules"), replay());
                    }
                    true
                }
                (Ok(_), Err(k)) => {
                    ctx.violation(format!("C16:valid-call-rejected:{k}"), format!("call {i} ({src} -> {target}) is valid but was rejected with {k}"), replay());
                    true
                }
                (Err(kind), Ok(())) => {
                    ctx.violation(format!("C16:malformed-call-accepted:{kind}"), format!("call {i} ({src} -> {target}) must be rejected with {kind} but was accepted"), replay());
                    true
                }
            }
        };
        match op {
            Op::DerivesAll(d) => {
                derives.add_derives_for_all(d.iter().map(|x| p(x)));
                m_global_d.extend(d.iter().map(|x| nows(x)));
                ctx.count("calls[add_derives_for_all]", 1);
            }
            Op::AttrsAll(a) => {
                derives.add_attributes_for_all(a.iter().map(|x| attr(x)));
                m_global_a.extend(a.iter().map(|x| nows(x)));
                ctx.count("calls[add_attributes_for_all]", 1);
            }
            Op::DerivesFor(path, d, rec) => {
                derives.add_derives_for(syn::parse_str(path).unwrap(), d.iter().map(|x| p(x)), *rec);
                m_spec_d.entry((path.clone(), *rec)).or_default().extend(d.iter().map(|x| nows(x)));
                ctx.count("calls[add_derives_for]", 1);
            }
            Op::AttrsFor(path, a, rec) => {
                derives.add_attributes_for(syn::parse_str(path).unwrap(), a.iter().map(|x| attr(x)), *rec);
                m_spec_a.entry((path.clone(), *rec)).or_default().extend(a.iter().map(|x| nows(x)));
                ctx.count("calls[add_attributes_for]", 1);
            }
            Op::Insert(s, t) => {
                ctx.count("calls[insert]", 1);
                if step(ctx, &mut subs, &mut m_subs, s, t, false) {
                    rejected += 1;
                }
            }
            Op::InsertIfNotExists(s, t) => {
                ctx.count("calls[insert_if_not_exists]", 1);
                if step(ctx, &mut subs, &mut m_subs, s, t, true) {
                    rejected += 1;
                }
            }
            Op::Extend(pairs) => {
                ctx.count("calls[extend]", 1);
                // model: sequential inserts that stop at the first rejected element
                let mut expect_err: Option<&'static str> = None;
                for (s, t) in pairs {
                    match model_pair(s, t) {
                        Ok((k, tg)) => {
                            if m_subs.contains_key(&k) {
                                overwrites += 1;
                            }
                            m_subs.insert(k, tg);
                        }
                        Err(kind) => {
                            expect_err = Some(kind);
                            break;
                        }
                    }
                }
                // implementation: one extend call with every pair up to the first relative target
                // (a relative target cannot be passed at all: AbsolutePath is a checked newtype)
                let mut args = Vec::new();
                let mut early: Option<&'static str> = None;
                for (s, t) in pairs {
                    match absolute_path(p(t)) {
                        Ok(a) => args.push((p(s), a)),
                        Err(e) => {
                            early = Some(kind_name(&e.kind));
                            break;
                        }
                    }
                }
                match guard(|| subs.extend(args)) {
                    Err(pn) => ctx.violation(format!("C16:panic:{}", pn.signature()), format!("extend call {i} panicked: {}", pn.msg), replay()),
                    Ok(r) => {
                        let got_err = match r {
                            Ok(()) => early,
                            Err(e) => Some(kind_name(&e.kind)),
                        };
                        if let Some(k) = expect_err {
                            ctx.count(&format!("rejected[{k}]"), 1);
                            rejected += 1;
                        }
                        if got_err != expect_err {
                            ctx.violation(
                                "C16:extend-outcome",
                                format!("extend call {i} {pairs:?}: expected {expect_err:?}, got {got_err:?}"),
                                replay(),
                            );
                        }
                    }
                }
            }
        }
        // (b) map equality after every call
        if snapshot(&subs) != m_subs {
            ctx.violation(
                "C16:substitute-map-differs",
                format!("after call {i} ({op:?}) TypeSubstitutes::iter() = {:?}, model = {:?}", snapshot(&subs), m_subs),
                replay(),
            );
            break;
        }
    }
    ctx.count("overwrites", overwrites);
    for probe_key in SRC_PATHS {
        let key: Vec<String> = probe_key.split("::").map(|s| s.to_string()).collect();
        if subs.contains(&key) != m_subs.contains_key(&key) {
            ctx.violation("C16:contains-differs", format!("contains({probe_key}) disagrees with the model"), replay());
        }
    }
    if subs.contains(&vec![]) {
        ctx.violation("C16:contains-empty-path", "contains(empty path) returned true".to_string(), replay());
    }
    // (a) derives on the probe registry (substitutes are left out: they would remove items)
    let settings = TypeGeneratorSettings { derives: derives.clone(), types_mod_ident: syn::parse_str("root").unwrap(), ..TypeGeneratorSettings::default() };
    let out = guard(|| TypeGenerator::new(probe, &settings).generate_types_mod().map(|m| m.to_token_stream(&settings)));
    match out {
        Ok(Ok(tokens)) => match CModel::parse(tokens) {
            Ok(cm) => {
                for (path, item) in &cm.items {
                    let rpath = path[1..].join("::");
                    let mut want_d = m_global_d.clone();
                    let mut want_a = m_global_a.clone();
                    if let Some(s) = m_spec_d.get(&(rpath.clone(), false)) {
                        want_d.extend(s.iter().cloned());
                    }
                    if let Some(s) = m_spec_a.get(&(rpath.clone(), false)) {
                        want_a.extend(s.iter().cloned());
                    }
                    for anc in ancestors_or_self(&rpath) {
                        if let Some(s) = m_spec_d.get(&(anc.to_string(), true)) {
                            want_d.extend(s.iter().cloned());
                        }
                        if let Some(s) = m_spec_a.get(&(anc.to_string(), true)) {
                            want_a.extend(s.iter().cloned());
                        }
                    }
                    let got_d: Vec<String> = item.derives();
                    let got_a: Vec<String> = item.attrs.iter().map(|a| nows(a)).collect();
                    let set_d: BTreeSet<String> = got_d.iter().cloned().collect();
                    let set_a: BTreeSet<String> = got_a.iter().cloned().collect();
                    if set_d != want_d {
                        ctx.violation("C16:derives-differ", format!("{rpath}: derives {set_d:?}, expected union {want_d:?}"), replay());
                    }
                    if set_a != want_a {
                        ctx.violation("C16:attributes-differ", format!("{rpath}: attributes {set_a:?}, expected union {want_a:?}"), replay());
                    }
                    if got_d.len() != set_d.len() || got_a.len() != set_a.len() {
                        ctx.violation("C16:duplicates-in-output", format!("{rpath}: duplicate derive or attribute emitted"), replay());
                    }
                    ctx.count("probe_items_checked", 1);
                }
            }
            Err(e) => ctx.violation("C16:probe-unparsable", e, replay()),
        },
        Ok(Err(e)) => ctx.violation("C16:probe-generation-failed", format!("{e}"), replay()),
        Err(pn) => ctx.violation(format!("C16:probe-panic:{}", pn.signature()), pn.msg.clone(), replay()),
    }
    rejected > 0 && overwrites > 0
}

pub fn run(ctx: &mut Ctx) {
    let probe = sim::simulate(&probe_program()).registry;
    let n = ctx.tier.pick(5000u64, 200_000u64);
    for case in 0..n {
        if !ctx.mine(case) {
            continue;
        }
        let mut rng = ctx.rng("history", case);
        let ops = gen_history(&mut rng);
        ctx.begin_case(&format!("history {case}"));
        let oj = serde_json::to_value(&ops).unwrap();
        let nt = judge(ctx, &probe, &ops, &|| json!({"kind": "history", "ops": oj}));
        ctx.case(hash_of(&serde_json::to_string(&ops).unwrap()), nt);
        if ctx.res.samples.len() < 2 && ops.len() < 12 && nt {
            ctx.sample(json!({"history": ops}));
        }
    }
}

pub fn replay(ctx: &mut Ctx, v: &serde_json::Value) {
    let probe = sim::simulate(&probe_program()).registry;
    let ops: Vec<Op> = serde_json::from_value(v["ops"].clone()).expect("ops");
    let vv = v.clone();
    let nt = judge(ctx, &probe, &ops, &move || vv.clone());
    ctx.case(0, nt);
}

//! C10 — documented failure conditions are errors, not panics, and the only ones.

use crate::ev::*;
use crate::gen::*;
use crate::prog::*;
use crate::reg;
use crate::sdesc::SDesc;
use crate::sim;
use scale_info::{PortableRegistry, TypeDef};
use scale_typegen::TypegenError;
use serde_json::json;
use std::collections::BTreeSet;

pub const META: PropMeta = PropMeta {
    id: "C10",
    level: "fault_enumeration",
    rule: "base registries: well-formed, unique generated paths, no recursive derives (simulator programs incl. Duration/NonZero/bit sequences/compact, Polkadot sub-registries with unique paths). Single faults, every site of every base registry: (1) id != index at each entry (two flavours: id bumped, id beyond the end) -> RegistryTypeIdsInvalid{given, expected} from generate_types_mod AND ensure_unique_type_paths; (2) one field of every multi-field composite/variant of a generated type flipped between named and unnamed -> InvalidFields; (3) compact / decoded-bits path removed from the settings when the fault-free run walked a compact / bit sequence (hook rtp:compact / rtp:bitsequence observed) -> CompactPathNone / DecodedBitsPathNone; (4) a fresh missing id written into every field, element, tuple member, compact inner, bit store/order and non-skipped parameter position -> TypeNotFound(that id) whenever the holder's children were walked by the fault-free run (judged sites; other sites: only the no-panic clause), also through resolve_type_path(holder). Fault-free tier: every base registry plus C01-style random registries and a deep-nesting stress shard must yield Ok or DuplicateTypePath and never panic, for generate_types_mod, ensure_unique_type_paths and resolve_type_path(id) of every id. non-trivial = a fault was injected at a judged site or a fault-free registry with >= 1 generated type; distinct by (registry hash, fault).",
    assumptions: &["judged sites of fault kind 4 are read from the resolve hook events of the fault-free run of the same code"],
    required_counters: &[
        "fault[id-mismatch]:expected-error", "fault[mixed-fields]:expected-error", "fault[no-compact-path]:expected-error",
        "fault[no-bits-path]:expected-error", "fault[missing-id]:expected-error", "fault_free[ok]",
    ],
    floor: (5000, 200_000),
    shards: (16, 16),
};

fn settings() -> SDesc {
    SDesc::default()
}

fn replay_json(reg: &PortableRegistry, fault: serde_json::Value, label: &str) -> serde_json::Value {
    json!({"kind": "fault", "registry": reg::to_json(reg), "fault": fault, "label": label})
}

fn outcome_key(o: &GenOutcome) -> String {
    match o {
        GenOutcome::Ok(_) => "ok".into(),
        GenOutcome::Err(e) => format!("error:{}", err_kind(e)),
        GenOutcome::Panic(p) => format!("panic:{}", p.signature()),
    }
}

/// Fault-free clause on one registry. Returns the hook events of generation when it succeeded.
pub fn fault_free(ctx: &mut Ctx, reg: &PortableRegistry, d: &SDesc, label: &str) -> Option<Vec<scale_typegen::verif_hooks::Event>> {
    let s = d.build();
    let run = generate(reg, &s);
    let key = outcome_key(&run.outcome);
    let mut ok = None;
    match &run.outcome {
        GenOutcome::Ok(_) => {
            ctx.count("fault_free[ok]", 1);
            ok = Some(run.events.clone());
        }
        GenOutcome::Err(TypegenError::DuplicateTypePath(_)) => ctx.count("fault_free[DuplicateTypePath]", 1),
        GenOutcome::Err(e) => ctx.violation(
            format!("C10:fault-free:{key}"),
            format!("well-formed registry with supported settings fails with {e}; case {label}"),
            replay_json(reg, json!({"kind": "none"}), label),
        ),
        GenOutcome::Panic(p) => ctx.violation(
            format!("C10:fault-free:{key}"),
            format!("generate_types_mod panicked on a well-formed registry: {}; case {label}", p.msg),
            replay_json(reg, json!({"kind": "none"}), label),
        ),
    }
    let mut r2 = reg.clone();
    match guard(|| scale_typegen::utils::ensure_unique_type_paths(&mut r2)) {
        Ok(Ok(())) => ctx.count("fault_free_dedup[ok]", 1),
        Ok(Err(e)) => ctx.violation(
            format!("C10:fault-free-dedup:error:{}", err_kind(&e)),
            format!("ensure_unique_type_paths fails on a well-formed registry: {e}; case {label}"),
            replay_json(reg, json!({"kind": "none"}), label),
        ),
        Err(p) => ctx.violation(
            format!("C10:fault-free-dedup:panic:{}", p.signature()),
            format!("ensure_unique_type_paths panicked: {}; case {label}", p.msg),
            replay_json(reg, json!({"kind": "none"}), label),
        ),
    }
    for t in &reg.types {
        match resolve_path(reg, &s, t.id) {
            Ok(Ok(_)) => ctx.count("fault_free_resolve[ok]", 1),
            Ok(Err(e)) => ctx.violation(
                format!("C10:fault-free-resolve:error:{}", err_kind(&e)),
                format!("resolve_type_path({}) fails on a well-formed registry: {e}; case {label}", t.id),
                replay_json(reg, json!({"kind": "none", "id": t.id}), label),
            ),
            Err(p) => ctx.violation(
                format!("C10:fault-free-resolve:panic:{}", p.signature()),
                format!("resolve_type_path({}) panicked: {}; case {label}", t.id, p.msg),
                replay_json(reg, json!({"kind": "none", "id": t.id}), label),
            ),
        }
    }
    ok
}

#[derive(Clone, Debug)]
enum Site {
    Field { holder: u32, variant: Option<usize>, field: usize },
    Elem { holder: u32, index: usize },
    Param { holder: u32, index: usize },
}

fn sites(reg: &PortableRegistry) -> Vec<Site> {
    let mut out = Vec::new();
    for t in &reg.types {
        for (i, p) in t.ty.type_params.iter().enumerate() {
            if p.ty.is_some() {
                out.push(Site::Param { holder: t.id, index: i });
            }
        }
        match &t.ty.type_def {
            TypeDef::Composite(c) => {
                for i in 0..c.fields.len() {
                    out.push(Site::Field { holder: t.id, variant: None, field: i });
                }
            }
            TypeDef::Variant(v) => {
                for (vi, var) in v.variants.iter().enumerate() {
                    for i in 0..var.fields.len() {
                        out.push(Site::Field { holder: t.id, variant: Some(vi), field: i });
                    }
                }
            }
            TypeDef::Sequence(_) | TypeDef::Array(_) | TypeDef::Compact(_) => out.push(Site::Elem { holder: t.id, index: 0 }),
            TypeDef::Tuple(tu) => {
                for i in 0..tu.fields.len() {
                    out.push(Site::Elem { holder: t.id, index: i });
                }
            }
            TypeDef::BitSequence(_) => {
                out.push(Site::Elem { holder: t.id, index: 0 });
                out.push(Site::Elem { holder: t.id, index: 1 });
            }
            TypeDef::Primitive(_) => {}
        }
    }
    out
}

fn write_site(reg: &mut PortableRegistry, s: &Site, id: u32) {
    match s {
        Site::Param { holder, index } => reg.types[*holder as usize].ty.type_params[*index].ty = Some(id.into()),
        Site::Field { holder, variant, field } => match (&mut reg.types[*holder as usize].ty.type_def, variant) {
            (TypeDef::Composite(c), None) => c.fields[*field].ty = id.into(),
            (TypeDef::Variant(v), Some(vi)) => v.variants[*vi].fields[*field].ty = id.into(),
            _ => unreachable!(),
        },
        Site::Elem { holder, index } => match &mut reg.types[*holder as usize].ty.type_def {
            TypeDef::Sequence(s) => s.type_param = id.into(),
            TypeDef::Array(a) => a.type_param = id.into(),
            TypeDef::Compact(c) => c.type_param = id.into(),
            TypeDef::Tuple(t) => t.fields[*index] = id.into(),
            TypeDef::BitSequence(b) => {
                if *index == 0 {
                    b.bit_store_type = id.into()
                } else {
                    b.bit_order_type = id.into()
                }
            }
            _ => unreachable!(),
        },
    }
}

fn check_expected(
    ctx: &mut Ctx,
    kind: &str,
    got: &GenOutcome,
    pred: impl Fn(&TypegenError) -> bool,
    api: &str,
    expect: &str,
    reg: &PortableRegistry,
    fault: serde_json::Value,
    label: &str,
) {
    match got {
        GenOutcome::Err(e) if pred(e) => ctx.count(&format!("fault[{kind}]:expected-error"), 1),
        other => {
            let k = outcome_key(other);
            ctx.violation(
                format!("C10:fault:{kind}:{api}:{k}"),
                format!("fault {fault} must make {api} return {expect}, observed {k}; case {label}"),
                replay_json(reg, fault, label),
            )
        }
    }
}

fn dedup_outcome(reg: &PortableRegistry) -> GenOutcome {
    let mut r = reg.clone();
    match guard(|| scale_typegen::utils::ensure_unique_type_paths(&mut r)) {
        Ok(Ok(())) => GenOutcome::Ok(Default::default()),
        Ok(Err(e)) => GenOutcome::Err(e),
        Err(p) => GenOutcome::Panic(p),
    }
}

/// All single faults on one base registry.
pub fn fault_tier(ctx: &mut Ctx, base: &PortableRegistry, label: &str, events: &[scale_typegen::verif_hooks::Event]) {
    let d = settings();
    let s = d.build();
    let fp = reg::fingerprint(base);
    let n = base.types.len() as u32;
    // (1) id mismatch at every entry
    for i in 0..n {
        for (flavour, bad) in [("bump", i + 1), ("beyond", n + 7)] {
            let mut r = base.clone();
            r.types[i as usize].id = bad;
            let fault = json!({"kind": "id-mismatch", "entry": i, "id": bad});
            let pred = |e: &TypegenError| matches!(e, TypegenError::RegistryTypeIdsInvalid { given_ty_id, expected_ty_id, .. } if *given_ty_id == bad && *expected_ty_id == i);
            let g = generate(&r, &s).outcome;
            check_expected(ctx, "id-mismatch", &g, pred, "generate_types_mod", "RegistryTypeIdsInvalid", &r, fault.clone(), label);
            let dd = dedup_outcome(&r);
            check_expected(ctx, "id-mismatch", &dd, pred, "ensure_unique_type_paths", "RegistryTypeIdsInvalid", &r, fault, label);
            ctx.case(hash_of(&(fp, "id", i, flavour)), true);
        }
    }
    // (2) mixed named / unnamed fields in generated types
    for t in &base.types {
        if !reg::is_generated(&t.ty) || d.is_substituted(&t.ty.path.segments) {
            continue;
        }
        let lists: Vec<(Option<usize>, usize, bool)> = match &t.ty.type_def {
            TypeDef::Composite(c) => vec![(None, c.fields.len(), c.fields.first().map(|f| f.name.is_some()).unwrap_or(false))],
            TypeDef::Variant(v) => v
                .variants
                .iter()
                .enumerate()
                .map(|(i, v)| (Some(i), v.fields.len(), v.fields.first().map(|f| f.name.is_some()).unwrap_or(false)))
                .collect(),
            _ => vec![],
        };
        for (vi, len, named) in lists {
            if len < 2 {
                continue;
            }
            for fi in 0..len {
                let mut r = base.clone();
                let f = match (&mut r.types[t.id as usize].ty.type_def, vi) {
                    (TypeDef::Composite(c), None) => &mut c.fields[fi],
                    (TypeDef::Variant(v), Some(vi)) => &mut v.variants[vi].fields[fi],
                    _ => unreachable!(),
                };
                f.name = if named { None } else { Some("injected".into()) };
                let fault = json!({"kind": "mixed-fields", "entry": t.id, "variant": vi, "field": fi});
                let g = generate(&r, &s).outcome;
                check_expected(ctx, "mixed-fields", &g, |e| matches!(e, TypegenError::InvalidFields(_)), "generate_types_mod", "InvalidFields", &r, fault, label);
                // de-duplication must not panic on it either
                if let GenOutcome::Panic(p) = dedup_outcome(&r) {
                    ctx.violation(format!("C10:fault:mixed-fields:dedup-panic:{}", p.signature()), p.msg.clone(), replay_json(&r, json!({"kind": "mixed-fields"}), label));
                }
                ctx.case(hash_of(&(fp, "mixed", t.id, vi, fi)), true);
            }
        }
    }
    // (3) missing compact / bits path
    let walked_compact = events.iter().any(|e| e.tag == "rtp:compact");
    let walked_bits = events.iter().any(|e| e.tag == "rtp:bitsequence");
    if walked_compact {
        let mut d2 = d.clone();
        d2.compact_path = None;
        let g = generate(base, &d2.build()).outcome;
        check_expected(ctx, "no-compact-path", &g, |e| matches!(e, TypegenError::CompactPathNone), "generate_types_mod", "CompactPathNone", base, json!({"kind": "no-compact-path"}), label);
        ctx.case(hash_of(&(fp, "nocompact")), true);
    }
    if walked_bits {
        let mut d2 = d.clone();
        d2.bits_path = None;
        let g = generate(base, &d2.build()).outcome;
        check_expected(ctx, "no-bits-path", &g, |e| matches!(e, TypegenError::DecodedBitsPathNone), "generate_types_mod", "DecodedBitsPathNone", base, json!({"kind": "no-bits-path"}), label);
        ctx.case(hash_of(&(fp, "nobits")), true);
    }
    for t in &base.types {
        match &t.ty.type_def {
            TypeDef::Compact(_) => {
                let mut d2 = d.clone();
                d2.compact_path = None;
                let r = resolve_path(base, &d2.build(), t.id);
                let o = match r {
                    Ok(Ok(_)) => GenOutcome::Ok(Default::default()),
                    Ok(Err(e)) => GenOutcome::Err(e),
                    Err(p) => GenOutcome::Panic(p),
                };
                check_expected(ctx, "no-compact-path", &o, |e| matches!(e, TypegenError::CompactPathNone), "resolve_type_path", "CompactPathNone", base, json!({"kind": "no-compact-path", "id": t.id}), label);
            }
            TypeDef::BitSequence(_) => {
                let mut d2 = d.clone();
                d2.bits_path = None;
                let r = resolve_path(base, &d2.build(), t.id);
                let o = match r {
                    Ok(Ok(_)) => GenOutcome::Ok(Default::default()),
                    Ok(Err(e)) => GenOutcome::Err(e),
                    Err(p) => GenOutcome::Panic(p),
                };
                check_expected(ctx, "no-bits-path", &o, |e| matches!(e, TypegenError::DecodedBitsPathNone), "resolve_type_path", "DecodedBitsPathNone", base, json!({"kind": "no-bits-path", "id": t.id}), label);
            }
            _ => {}
        }
    }
    // (4) missing id at every site
    let hook_resolved: BTreeSet<u32> = events.iter().filter(|e| e.tag.starts_with("rtp:") && e.tag != "rtp:param-match" && e.tag != "rtp:substituted" && e.tag != "rtp:not-substituted" && e.tag != "rtp:cow-unwrap").map(|e| e.a).collect();
    let (resolved, resolved_from_other) = oracle_walk(base, &d);
    // cross-check of the oracle's walk with what the hooks saw in the fault-free run
    // the hook sits at the entry of the recursive resolver; the inner type of a Cow is looked up
    // directly, so the hooks cannot see it
    let cow_inners: BTreeSet<u32> = base
        .types
        .iter()
        .filter(|t| t.ty.path.segments.len() == 1 && t.ty.path.segments[0] == "Cow")
        .filter_map(|t| t.ty.type_params.first().and_then(|p| p.ty).map(|t| t.id))
        .collect();
    if hook_resolved.is_subset(&resolved) && resolved.difference(&hook_resolved).all(|i| cow_inners.contains(i)) {
        ctx.count("oracle_walk_agrees_with_hooks", 1);
    } else {
        ctx.count("oracle_walk_differs_from_hooks", 1);
        let only_oracle: Vec<String> = resolved.difference(&hook_resolved).take(3).map(|i| format!("{i}:{}", serde_json::to_string(&base.types[*i as usize].ty).unwrap_or_default().chars().take(160).collect::<String>())).collect();
        let only_hooks: Vec<String> = hook_resolved.difference(&resolved).take(3).map(|i| format!("{i}:{}", serde_json::to_string(&base.types[*i as usize].ty).unwrap_or_default().chars().take(160).collect::<String>())).collect();
        ctx.note(format!("oracle walk differs on {label}: only oracle {only_oracle:?}; only hooks {only_hooks:?}"));
    }
    // two flavours of a missing id: the first free one and one further out
    for (si, site) in sites(base).into_iter().enumerate() {
        let fresh = if si % 2 == 0 { n } else { n + 3 };
        let mut r = base.clone();
        write_site(&mut r, &site, fresh);
        let (holder, judged) = match &site {
            // fields of a generated, non-substituted type are walked by the main loop
            Site::Field { holder, .. } => {
                let t = &base.types[*holder as usize].ty;
                let is_cow = t.path.segments.len() == 1 && t.path.segments[0] == "Cow";
                (*holder, (reg::is_generated(t) && !d.is_substituted(&t.path.segments)) || (is_cow && false))
            }
            // elements / parameters are walked whenever the holder itself was resolved
            Site::Elem { holder, .. } => (*holder, resolved.contains(holder)),
            // a parameter site is both the declaration and the argument of a self reference:
            // it is looked up only when the holder is mentioned from another definition
            Site::Param { holder, .. } => (*holder, resolved_from_other.contains(holder)),
        };
        let fault = json!({"kind": "missing-id", "site": format!("{site:?}"), "id": fresh, "judged": judged});
        let g = generate(&r, &s).outcome;
        if judged {
            check_expected(ctx, "missing-id", &g, |e| matches!(e, TypegenError::TypeNotFound(id) if *id == fresh), "generate_types_mod", "TypeNotFound(fresh id)", &r, fault.clone(), label);
            ctx.count("missing_id_sites_judged", 1);
        } else {
            ctx.count("missing_id_sites_unjudged", 1);
            if let GenOutcome::Panic(p) = &g {
                ctx.violation(format!("C10:fault:missing-id:panic:{}", p.signature()), format!("panic at an unjudged site {site:?}: {}; case {label}", p.msg), replay_json(&r, fault.clone(), label));
            }
        }
        // resolve_type_path(holder) walks parameters and elements of the holder itself
        if matches!(site, Site::Elem { .. } | Site::Param { .. }) {
            let is_cow_holder = {
                let t = &base.types[holder as usize].ty;
                t.path.segments.len() == 1 && t.path.segments[0] == "Cow"
            };
            let o = match resolve_path(&r, &s, holder) {
                Ok(Ok(_)) => GenOutcome::Ok(Default::default()),
                Ok(Err(e)) => GenOutcome::Err(e),
                Err(p) => GenOutcome::Panic(p),
            };
            let substituted = d.is_substituted(&base.types[holder as usize].ty.path.segments);
            if !is_cow_holder && !substituted {
                check_expected(ctx, "missing-id", &o, |e| matches!(e, TypegenError::TypeNotFound(id) if *id == fresh), "resolve_type_path(holder)", "TypeNotFound(fresh id)", &r, fault.clone(), label);
            } else if let GenOutcome::Panic(p) = &o {
                ctx.violation(format!("C10:fault:missing-id:resolve-panic:{}", p.signature()), p.msg.clone(), replay_json(&r, fault.clone(), label));
            }
        }
        if let GenOutcome::Panic(p) = dedup_outcome(&r) {
            ctx.violation(format!("C10:fault:missing-id:dedup-panic:{}", p.signature()), format!("ensure_unique_type_paths panicked: {}; case {label}", p.msg), replay_json(&r, fault, label));
        }
        ctx.case(hash_of(&(fp, "missing", format!("{site:?}"))), judged);
    }
}

/// The oracle's own model of which registry entries generation has to look at (written from the
/// statement of what a generated module mentions, not from the generator's source): for every
/// generated, non-substituted type G, each field type is looked at unless it is one of G's own
/// parameters; looking at a type means looking at its non-skipped parameters and at its element
/// / member / store / order types (not at the fields of other named types). Returns
/// (entries looked at, entries looked at from a context other than themselves).
fn oracle_walk(reg: &PortableRegistry, d: &SDesc) -> (BTreeSet<u32>, BTreeSet<u32>) {
    fn walk(reg: &PortableRegistry, id: u32, ctx_id: u32, ctx: &BTreeSet<u32>, top: bool, seen: &mut BTreeSet<(u32, u32)>, all: &mut BTreeSet<u32>, other: &mut BTreeSet<u32>) {
        if !top && ctx.contains(&id) {
            return;
        }
        if !seen.insert((ctx_id, id)) {
            return;
        }
        let Some(mut t) = reg.resolve(id) else { return };
        all.insert(id);
        if id != ctx_id {
            other.insert(id);
        }
        if t.path.segments.len() == 1 && t.path.segments[0] == "Cow" {
            if let Some(inner) = t.type_params.first().and_then(|p| p.ty) {
                all.insert(inner.id);
                other.insert(inner.id);
                match reg.resolve(inner.id) {
                    Some(i) => t = i,
                    None => return,
                }
            }
        }
        for p in &t.type_params {
            if let Some(ty) = p.ty {
                walk(reg, ty.id, ctx_id, ctx, false, seen, all, other);
            }
        }
        match &t.type_def {
            TypeDef::Sequence(s) => walk(reg, s.type_param.id, ctx_id, ctx, false, seen, all, other),
            TypeDef::Array(a) => walk(reg, a.type_param.id, ctx_id, ctx, false, seen, all, other),
            TypeDef::Compact(c) => walk(reg, c.type_param.id, ctx_id, ctx, false, seen, all, other),
            TypeDef::Tuple(tu) => tu.fields.iter().for_each(|f| walk(reg, f.id, ctx_id, ctx, false, seen, all, other)),
            TypeDef::BitSequence(b) => {
                walk(reg, b.bit_order_type.id, ctx_id, ctx, false, seen, all, other);
                walk(reg, b.bit_store_type.id, ctx_id, ctx, false, seen, all, other);
            }
            _ => {}
        }
    }
    let mut all = BTreeSet::new();
    let mut other = BTreeSet::new();
    let mut seen = BTreeSet::new();
    for g in &reg.types {
        if !reg::is_generated(&g.ty) || d.is_substituted(&g.ty.path.segments) {
            continue;
        }
        let ctx: BTreeSet<u32> = g.ty.type_params.iter().filter_map(|p| p.ty.map(|t| t.id)).collect();
        let fields: Vec<&scale_info::Field<scale_info::form::PortableForm>> = match &g.ty.type_def {
            TypeDef::Composite(c) => c.fields.iter().collect(),
            TypeDef::Variant(v) => v.variants.iter().flat_map(|v| v.fields.iter()).collect(),
            _ => vec![],
        };
        for f in fields {
            // a field is the parameter itself only if its recorded type name says so (or is absent)
            let is_param = g.ty.type_params.iter().any(|p| {
                p.ty.map(|t| t.id) == Some(f.ty.id) && f.type_name.as_ref().map(|n| *n == p.name).unwrap_or(true)
            });
            if is_param {
                continue;
            }
            // looked at even if its id coincides with a parameter id (the recorded name differs)
            walk(reg, f.ty.id, g.id, &ctx, true, &mut seen, &mut all, &mut other);
        }
    }
    (all, other)
}

fn unique_paths(reg: &PortableRegistry) -> bool {
    reg::families(reg).values().all(|v| v.len() == 1)
}

pub fn run(ctx: &mut Ctx) {
    // fault tier over simulator bases
    let n = ctx.tier.pick(160u64, 4000u64);
    for case in 0..n {
        if !ctx.mine(case) {
            continue;
        }
        let mut rng = ctx.rng("base", case);
        let mut cfg = GenCfg::default();
        cfg.max_insts = 1;
        cfg.max_defs = 5;
        cfg.allow_duration = true;
        let prog = ProgGen::new(&mut rng, cfg).gen_program();
        let out = sim::simulate(&prog);
        if !unique_paths(&out.registry) {
            ctx.count("bases_skipped_repeated_paths", 1);
            continue;
        }
        let label = format!("sim-base#{case}");
        ctx.begin_case(&label);
        if let Some(ev) = fault_free(ctx, &out.registry, &settings(), &label) {
            ctx.count("base_registries", 1);
            fault_tier(ctx, &out.registry, &label, &ev);
            if ctx.res.samples.len() < 2 {
                ctx.sample(json!({"base": label, "entries": out.registry.types.len(), "fault_sites": sites(&out.registry).len(), "example_fault": {"kind": "missing-id", "site": format!("{:?}", sites(&out.registry).first())}}));
            }
        }
    }
    // Polkadot sub-registries with unique paths
    let polka = reg::load_polkadot();
    let n_p = ctx.tier.pick(24u64, 300u64);
    for case in 0..n_p {
        if !ctx.mine(case) {
            continue;
        }
        use rand::Rng;
        let mut rng = ctx.rng("polkadot-base", case);
        let mut r = polka.clone();
        let k = rng.gen_range(1..=3);
        let roots: BTreeSet<u32> = (0..k).map(|_| rng.gen_range(0..polka.types.len() as u32)).collect();
        r.retain(|id| roots.contains(&id));
        if !unique_paths(&r) || r.types.len() > 120 {
            ctx.count("bases_skipped_repeated_paths", 1);
            continue;
        }
        let label = format!("polkadot-base#{case}");
        ctx.begin_case(&label);
        if let Some(ev) = fault_free(ctx, &r, &settings(), &label) {
            ctx.count("base_registries", 1);
            fault_tier(ctx, &r, &label, &ev);
        }
    }
    // fault-free tier: random registries of every kind, plus deep nesting
    let n_f = ctx.tier.pick(2500u64, 100_000u64);
    for case in 0..n_f {
        if !ctx.mine(case) {
            continue;
        }
        let mut rng = ctx.rng("fault-free", case);
        let mut cfg = GenCfg::default();
        cfg.allow_duration = true;
        cfg.nested_phantom = case % 5 == 0;
        cfg.compact_unit = true;
        if case % 13 == 0 {
            cfg.max_depth = 24;
            cfg.max_defs = 3;
            cfg.max_fields = 2;
        }
        let prog = ProgGen::new(&mut rng, cfg).gen_program();
        let mut out = sim::simulate(&prog);
        if case % 6 == 1 {
            // type names are optional: well-formed all the same
            let n = reg::drop_type_names(&mut rng, &mut out.registry, 0.5);
            ctx.count("fault_free_type_names_dropped", n);
        }
        let label = format!("fault-free#{case}");
        ctx.begin_case(&label);
        let d = crate::settingsgen::random_sdesc(&mut rng, &out.registry, &crate::settingsgen::SettingsOpts { extra_substitutes: false, specific_derives: true, compact_as: true });
        fault_free(ctx, &out.registry, &d, &label);
        ctx.case(reg::fingerprint(&out.registry), reg::families(&out.registry).len() > 0);
    }
    if ctx.shard == 0 {
        ctx.begin_case("polkadot full");
        let mut d = settings();
        d.root = "root".into();
        fault_free(ctx, &polka, &d, "polkadot");
    }
}

pub fn replay(ctx: &mut Ctx, v: &serde_json::Value) {
    let reg = reg::from_json(&v["registry"]);
    let label = v["label"].as_str().unwrap_or("replay").to_string();
    // the recorded registry already carries the fault: re-run the fault-free and API calls on it
    // and report what is observed now
    let d = settings();
    match v["fault"]["kind"].as_str() {
        Some("none") | None => {
            fault_free(ctx, &reg, &d, &label);
        }
        Some(kind) => {
            let s = if kind == "no-compact-path" {
                let mut d2 = d.clone();
                d2.compact_path = None;
                d2.build()
            } else if kind == "no-bits-path" {
                let mut d2 = d.clone();
                d2.bits_path = None;
                d2.build()
            } else {
                d.build()
            };
            let g = generate(&reg, &s).outcome;
            let k = outcome_key(&g);
            ctx.note(format!("replayed fault {} -> generate_types_mod: {k}", v["fault"]));
            let expected = match kind {
                "id-mismatch" => "error:RegistryTypeIdsInvalid",
                "mixed-fields" => "error:InvalidFields",
                "no-compact-path" => "error:CompactPathNone",
                "no-bits-path" => "error:DecodedBitsPathNone",
                _ => "error:TypeNotFound",
            };
            let judged = v["fault"]["judged"].as_bool().unwrap_or(kind != "missing-id" || v["fault"].get("judged").is_none() && false);
            if let GenOutcome::Panic(p) = &g {
                ctx.violation(format!("C10:fault:{kind}:panic:{}", p.signature()), format!("panic under fault: {}", p.msg), v.clone());
            } else if judged && !k.starts_with(expected) {
                ctx.violation(format!("C10:fault:{kind}:generate_types_mod:{k}"), format!("expected {expected}, observed {k}"), v.clone());
            }
        }
    }
    ctx.case(reg::fingerprint(&reg), true);
}

//! C11 — settings validation is sound and complete.

use crate::cmodel::{nows, ts};
use crate::ev::*;
use crate::prog::*;
use crate::sdesc::{attr, p};
use crate::settingsgen::{ATTR_POOL, DERIVE_POOL};
use crate::sim;
use rand::seq::SliceRandom;
use rand::Rng;
use scale_info::PortableRegistry;
use scale_typegen::typegen::settings::substitutes::absolute_path;
use scale_typegen::typegen::validation::{similar_type_paths_in_registry, validate_substitutes_and_derives_against_registry};
use scale_typegen::{DerivesRegistry, TypeSubstitutes};
use serde::{Deserialize, Serialize};
use serde_json::json;
use std::collections::{BTreeMap, BTreeSet};

pub const META: PropMeta = PropMeta {
    id: "C11",
    level: "exploration",
    rule: "cases = (registry, settings) with 0..8 derive/attribute registrations and 0..5 substitutes whose paths are drawn from the registry's generated paths, its prelude paths and invented unknown paths (several unknown at once; the same path specific AND recursive; derives-only and attributes-only entries), registered in random order; plus 6 similar-path queries per case (1..4 segments, final identifier present/absent/shared by several paths). Oracle: BTreeMap/BTreeSet model: Ok iff no unknown path; otherwise the three lists compared as sets, each path at most once, derives and attributes merged over specific+recursive, substitutes with their targets; similar paths = registry entries whose last identifier equals the query's, in registry order (compared after order-preserving de-duplication). non-trivial = at least one unknown and one known path registered; distinct by hash of the case descriptor.",
    assumptions: &["paths are compared by their identifier segments; generic arguments of a substitute source are ignored"],
    required_counters: &["validation_ok", "validation_err", "merged_specific_and_recursive_unknown", "similar_queries_nonempty", "similar_queries_empty"],
    floor: (2000, 50_000),
    shards: (8, 16),
};

#[derive(Clone, Debug, Serialize, Deserialize)]
pub struct Reg {
    pub path: String,
    pub derives: Vec<String>,
    pub attrs: Vec<String>,
    pub recursive: bool,
}

#[derive(Clone, Debug, Serialize, Deserialize)]
pub struct Case {
    pub regs: Vec<Reg>,
    pub substitutes: Vec<(String, String)>,
    pub queries: Vec<String>,
}

fn registry_paths(r: &PortableRegistry) -> Vec<Vec<String>> {
    r.types.iter().map(|t| t.ty.path.segments.clone()).filter(|s| !s.is_empty()).collect()
}

pub fn gen_case<R: Rng>(rng: &mut R, r: &PortableRegistry) -> Case {
    let known: Vec<String> = {
        let mut s: BTreeSet<String> = registry_paths(r).into_iter().map(|p| p.join("::")).collect();
        s.remove("");
        s.into_iter().collect()
    };
    let unknown = ["krate::Nope", "other::Foo", "krate::a::Missing", "Foo", "krate::m::Foo9", "x::y::z::W"];
    // near misses of known paths: a proper prefix (a module path, the bare crate name), a known
    // path continued by one more segment, a known path with its segments in another order, the
    // last identifier alone - unknown unless they happen to be registry paths themselves
    let near: Vec<String> = {
        let mut v: BTreeSet<String> = BTreeSet::new();
        for k in &known {
            let segs: Vec<&str> = k.split("::").collect();
            for n in 1..segs.len() {
                v.insert(segs[..n].join("::"));
            }
            v.insert(format!("{k}::Extra"));
            v.insert(format!("{k}::{}", segs[segs.len() - 1]));
            if segs.len() >= 2 {
                let mut rev = segs.clone();
                rev.swap(0, segs.len() - 1);
                v.insert(rev.join("::"));
                v.insert(segs[1..].join("::"));
            }
        }
        v.into_iter().filter(|p| !known.contains(p)).collect()
    };
    let pick_path = |rng: &mut R| -> String {
        if !known.is_empty() && rng.gen_bool(0.5) {
            known.choose(rng).unwrap().clone()
        } else if !near.is_empty() && rng.gen_bool(0.45) {
            near.choose(rng).unwrap().clone()
        } else {
            unknown.choose(rng).unwrap().to_string()
        }
    };
    let mut regs = Vec::new();
    for _ in 0..rng.gen_range(0..=8) {
        let path = if !regs.is_empty() && rng.gen_bool(0.3) {
            // same path again, possibly with the other recursive flag
            regs.choose(rng).map(|r: &Reg| r.path.clone()).unwrap()
        } else {
            pick_path(rng)
        };
        let mut dp = DERIVE_POOL.to_vec();
        dp.shuffle(rng);
        let mut ap = ATTR_POOL.to_vec();
        ap.shuffle(rng);
        let (nd, na) = match rng.gen_range(0..3) {
            0 => (rng.gen_range(1..=3), 0),
            1 => (0, rng.gen_range(1..=2)),
            _ => (rng.gen_range(1..=3), rng.gen_range(1..=2)),
        };
        regs.push(Reg {
            path,
            derives: dp[..nd].iter().map(|s| s.to_string()).collect(),
            attrs: ap[..na].iter().map(|s| s.to_string()).collect(),
            recursive: rng.gen_bool(0.5),
        });
    }
    let mut substitutes = Vec::new();
    for i in 0..rng.gen_range(0..=5) {
        let from = pick_path(rng);
        let from = if rng.gen_bool(0.2) { format!("{from}<A, B>") } else { from };
        let to = if from.contains('<') { format!("::ext::T{i}<B, A>") } else { format!("::ext::T{i}") };
        substitutes.push((from, to));
    }
    let mut queries = Vec::new();
    for _ in 0..6 {
        let last = if !known.is_empty() && rng.gen_bool(0.7) {
            known.choose(rng).unwrap().rsplit("::").next().unwrap().to_string()
        } else {
            ["Nope", "Foo", "Zzz", "Option"].choose(rng).unwrap().to_string()
        };
        let n = rng.gen_range(0..4);
        let mut segs: Vec<String> = (0..n).map(|i| ["q", "krate", "m", "a"][i].to_string()).collect();
        segs.push(last);
        queries.push(segs.join("::"));
    }
    Case { regs, substitutes, queries }
}

fn norm_path(path: &syn::Path) -> String {
    path.segments.iter().map(|s| s.ident.to_string()).collect::<Vec<_>>().join("::")
}

pub fn judge(ctx: &mut Ctx, r: &PortableRegistry, c: &Case, replay: &dyn Fn() -> serde_json::Value) -> bool {
    // build the real settings through the public API, in the given order
    let mut derives = DerivesRegistry::new();
    for reg in &c.regs {
        let tp: syn::TypePath = syn::parse_str(&reg.path).unwrap();
        if !reg.derives.is_empty() {
            derives.add_derives_for(tp.clone(), reg.derives.iter().map(|d| p(d)), reg.recursive);
        }
        if !reg.attrs.is_empty() {
            derives.add_attributes_for(tp, reg.attrs.iter().map(|a| attr(a)), reg.recursive);
        }
    }
    let mut subs = TypeSubstitutes::new();
    let mut sub_model: BTreeMap<String, String> = BTreeMap::new();
    for (from, to) in &c.substitutes {
        if subs.insert(p(from), absolute_path(p(to)).unwrap()).is_ok() {
            sub_model.insert(crate::sdesc::strip_generics(from), nows(to));
        }
    }
    // model
    let known: BTreeSet<String> = registry_paths(r).into_iter().map(|p| p.join("::")).collect();
    let mut m_derives: BTreeMap<String, BTreeSet<String>> = BTreeMap::new();
    let mut m_attrs: BTreeMap<String, BTreeSet<String>> = BTreeMap::new();
    let mut unknown_specific = BTreeSet::new();
    let mut unknown_recursive = BTreeSet::new();
    for reg in &c.regs {
        if known.contains(&reg.path) {
            continue;
        }
        if reg.recursive {
            unknown_recursive.insert(reg.path.clone());
        } else {
            unknown_specific.insert(reg.path.clone());
        }
        if !reg.derives.is_empty() {
            m_derives.entry(reg.path.clone()).or_default().extend(reg.derives.iter().map(|d| nows(d)));
        }
        if !reg.attrs.is_empty() {
            m_attrs.entry(reg.path.clone()).or_default().extend(reg.attrs.iter().map(|a| nows(a)));
        }
    }
    if unknown_specific.intersection(&unknown_recursive).next().is_some() {
        ctx.count("merged_specific_and_recursive_unknown", 1);
    }
    let m_subs: BTreeMap<String, String> = sub_model.iter().filter(|(k, _)| !known.contains(*k)).map(|(k, v)| (k.clone(), v.clone())).collect();
    let expect_ok = m_derives.is_empty() && m_attrs.is_empty() && m_subs.is_empty();
    let got = guard(|| validate_substitutes_and_derives_against_registry(&subs, &derives, r));
    match got {
        Err(pn) => ctx.violation(format!("C11:panic:{}", pn.signature()), format!("validation panicked: {}", pn.msg), replay()),
        Ok(Ok(())) => {
            ctx.count("validation_ok", 1);
            if !expect_ok {
                ctx.violation(
                    "C11:unsound-ok",
                    format!("validation returned Ok although unknown paths are registered: derives {:?} attrs {:?} substitutes {:?}", m_derives.keys(), m_attrs.keys(), m_subs.keys()),
                    replay(),
                );
            }
        }
        Ok(Err(e)) => {
            ctx.count("validation_err", 1);
            if expect_ok {
                ctx.violation("C11:spurious-error", format!("validation failed although every path is a registry path: {e}"), replay());
            } else {
                let mut dup = false;
                let mut a_derives: BTreeMap<String, BTreeSet<String>> = BTreeMap::new();
                for (path, set) in &e.derives_for_unknown_types {
                    if a_derives.insert(norm_path(path), set.iter().map(|d| nows(&ts(d))).collect()).is_some() {
                        dup = true;
                    }
                }
                let mut a_attrs: BTreeMap<String, BTreeSet<String>> = BTreeMap::new();
                for (path, set) in &e.attributes_for_unknown_types {
                    if a_attrs.insert(norm_path(path), set.iter().map(|d| nows(&ts(d))).collect()).is_some() {
                        dup = true;
                    }
                }
                let mut a_subs: BTreeMap<String, String> = BTreeMap::new();
                for (from, to) in &e.substitutes_for_unknown_types {
                    if a_subs.insert(norm_path(from), nows(&ts(to))).is_some() {
                        dup = true;
                    }
                }
                if dup {
                    ctx.violation("C11:path-listed-twice", format!("an unknown path is listed more than once: {e}"), replay());
                }
                if a_derives != m_derives {
                    ctx.violation("C11:derives-list", format!("derives for unknown types: expected {m_derives:?}, got {a_derives:?}"), replay());
                }
                if a_attrs != m_attrs {
                    ctx.violation("C11:attributes-list", format!("attributes for unknown types: expected {m_attrs:?}, got {a_attrs:?}"), replay());
                }
                if a_subs != m_subs {
                    ctx.violation("C11:substitutes-list", format!("substitutes for unknown types: expected {m_subs:?}, got {a_subs:?}"), replay());
                }
            }
        }
    }
    // similar paths
    for q in &c.queries {
        let qp = p(q);
        let last = qp.segments.last().unwrap().ident.to_string();
        let expected: Vec<String> = {
            let mut seen = BTreeSet::new();
            r.types
                .iter()
                .filter(|t| t.ty.path.segments.last() == Some(&last))
                .map(|t| t.ty.path.segments.join("::"))
                .filter(|p| seen.insert(p.clone()))
                .collect()
        };
        match guard(|| similar_type_paths_in_registry(r, &qp)) {
            Err(pn) => ctx.violation(format!("C11:similar-panic:{}", pn.signature()), pn.msg.clone(), replay()),
            Ok(got) => {
                let mut seen = BTreeSet::new();
                let got: Vec<String> = got.iter().map(norm_path).filter(|p| seen.insert(p.clone())).collect();
                if expected.is_empty() {
                    ctx.count("similar_queries_empty", 1);
                } else {
                    ctx.count("similar_queries_nonempty", 1);
                }
                if got != expected {
                    ctx.violation("C11:similar-paths", format!("query {q}: expected {expected:?}, got {got:?}"), replay());
                }
            }
        }
    }
    !m_derives.is_empty() || !m_attrs.is_empty() || !m_subs.is_empty()
}

pub fn run(ctx: &mut Ctx) {
    let n = ctx.tier.pick(6000u64, 200_000u64);
    for case in 0..n {
        if !ctx.mine(case) {
            continue;
        }
        let mut rng = ctx.rng("c11", case);
        let mut cfg = GenCfg::default();
        cfg.max_defs = 5;
        cfg.hostile_names = case % 3 == 0;
        let prog = ProgGen::new(&mut rng, cfg).gen_program();
        let out = sim::simulate(&prog);
        let c = gen_case(&mut rng, &out.registry);
        ctx.begin_case(&format!("c11 case {case}"));
        let cj = serde_json::to_value(&c).unwrap();
        let regj = crate::reg::to_json(&out.registry);
        let nt = judge(ctx, &out.registry, &c, &|| json!({"kind": "c11", "registry": regj, "case": cj}));
        ctx.case(hash_of(&(crate::reg::fingerprint(&out.registry), serde_json::to_string(&c).unwrap())), nt);
        if ctx.res.samples.len() < 3 && nt {
            ctx.sample(json!({"registrations": c.regs, "substitutes": c.substitutes, "queries": c.queries}));
        }
    }
}

pub fn replay(ctx: &mut Ctx, v: &serde_json::Value) {
    let r = crate::reg::from_json(&v["registry"]);
    let c: Case = serde_json::from_value(v["case"].clone()).expect("case");
    let vv = v.clone();
    let nt = judge(ctx, &r, &c, &move || vv.clone());
    ctx.case(0, nt);
}

//! C05 — generic definitions are recovered as generics (source round trip).

use crate::cmodel::*;
use crate::ev::*;
use crate::gen::*;
use crate::prog::*;
use crate::reg;
use crate::sdesc::*;
use crate::settingsgen::pick_root;
use crate::sim;
use rand::seq::SliceRandom;
use rand::Rng;
use serde_json::json;
use std::collections::{BTreeMap, BTreeSet};

pub const META: PropMeta = PropMeta {
    id: "C05",
    level: "exploration",
    rule: "cases = source programs of generic struct/enum definitions in nested modules (1..3 parameters, skipped parameters, PhantomData fields, Box/Cow/VecDeque/compact normalisations, recursion, all prelude types) with 1..6 instantiations per definition, restricted to coincidence-free instantiation sets (decided exactly from the source; rejected sets are counted); each program is pushed through the scale-info model under 3 different registration orders of its instantiations. Oracle: for every definition the expected item is computed from the SOURCE AST (generic over the non-skipped parameters in declaration order, named _i by declared position; every field type with parameters in the same positions; Box kept only at field level; Cow and VecDeque erased; compact as attribute; PhantomData fields and tuple members dropped and replaced by one trailing marker naming exactly the otherwise unused parameters; variant indices) and compared structurally with the parsed emitted item; all orders must emit the same item, and so must the route through ensure_unique_type_paths followed by generation (taken for the last order). non-trivial = a generic definition with >= 2 instantiations whose parameters occur at nested positions; distinct by program hash.",
    assumptions: &["the scale-info model reproduces real scale-info (monitored by the corpus check)", "definitions using associated types are outside this property's programs (their instantiations are different shapes by construction)"],
    required_counters: &["definitions_compared", "generic_definitions_compared", "nested_parameter_positions", "direct_parameter_positions", "markers_expected", "orders_compared", "dedup_then_generate_routes", "hook[rtp:param-match]"],
    floor: (500, 10_000),
    shards: (16, 16),
};

struct Exp<'a> {
    prog: &'a Program,
    d: &'a SDesc,
    nested_params: u64,
    direct_params: u64,
}

impl Exp<'_> {
    /// Expected emitted spelling of a source type at a non-field (nested) position.
    fn ty(&mut self, t: &Ty, top: bool) -> String {
        use Ty::*;
        let alloc = self.d.alloc_str();
        match t {
            Prim(p) => format!("::core::primitive::{}", p.name()),
            Str | CowStr => format!("{alloc}::string::String"),
            Param(i) => {
                if top {
                    self.direct_params += 1
                } else {
                    self.nested_params += 1
                }
                format!("_{i}")
            }
            Assoc(..) => "<assoc>".into(),
            Marker(j) => format!("{}::{}::M{j}", self.d.root, self.prog.krate),
            Def(dix, args) => {
                let def = &self.prog.defs[*dix];
                let mut p = vec![self.d.root.clone()];
                p.extend(self.prog.def_path(*dix));
                let a: std::vec::Vec<String> = args.iter().enumerate().filter(|(i, _)| !def.params[*i].skipped).map(|(_, a)| self.ty(a, false)).collect();
                if a.is_empty() {
                    p.join("::")
                } else {
                    format!("{}<{}>", p.join("::"), a.join(","))
                }
            }
            Vec(x) | VecDeque(x) => format!("{alloc}::vec::Vec<{}>", self.ty(x, false)),
            Array(x, n) => format!("[{};{}usize]", self.ty(x, false), n),
            Tuple(ts) => {
                let elems: std::vec::Vec<String> = ts.iter().filter(|t| !matches!(t, Phantom(_))).map(|t| self.ty(t, false)).collect();
                format!("({})", elems.iter().map(|e| format!("{e},")).collect::<String>())
            }
            Option(x) => format!("::core::option::Option<{}>", self.ty(x, false)),
            Result(a, b) => format!("::core::result::Result<{},{}>", self.ty(a, false), self.ty(b, false)),
            Box(x) => {
                if top {
                    format!("{alloc}::boxed::Box<{}>", self.ty(x, false))
                } else {
                    self.ty(x, false)
                }
            }
            Cow(x) => self.ty(x, top),
            BTreeMap(a, b) => format!("{alloc}::collections::BTreeMap<{},{}>", self.ty(a, false), self.ty(b, false)),
            BTreeSet(x) => format!("{alloc}::collections::BTreeSet<{}>", self.ty(x, false)),
            BinaryHeap(x) => format!("{alloc}::collections::BinaryHeap<{}>", self.ty(x, false)),
            Range(x) => format!("::core::ops::Range<{}>", self.ty(x, false)),
            RangeInclusive(x) => format!("::core::ops::RangeInclusive<{}>", self.ty(x, false)),
            NonZero(p) => format!("::core::num::{}", p.nonzero_name()),
            Duration => "::core::time::Duration".into(),
            Phantom(_) => "::core::marker::PhantomData<()>".into(),
            Compact(x) => format!("{}<{}>", nows(self.d.compact_path.as_deref().unwrap_or("")), self.ty(x, false)),
            BitVec(s, msb) => format!(
                "{}<::core::primitive::{},{}>",
                nows(self.d.bits_path.as_deref().unwrap_or("")),
                s.name(),
                nows(if *msb { MSB0_TARGET } else { LSB0_TARGET })
            ),
            BitVecOf(i, msb) => format!(
                "{}<{},{}>",
                nows(self.d.bits_path.as_deref().unwrap_or("")),
                self.ty(&Param(*i), false),
                nows(if *msb { MSB0_TARGET } else { LSB0_TARGET })
            ),
            Alias(_, x) => self.ty(x, top),
            Slice(x) => format!("{alloc}::vec::Vec<{}>", self.ty(x, false)),
            StrSlice => format!("{alloc}::string::String"),
        }
    }

    /// (type spelling, compact attribute) of a field
    fn field(&mut self, f: &FieldDecl) -> (String, bool) {
        // strip Box (kept) and look for an explicit Compact at field level
        fn strip<'t>(t: &'t Ty) -> (&'t Ty, bool) {
            match t {
                Ty::Box(x) => {
                    let (i, _) = strip(x);
                    (i, true)
                }
                Ty::Cow(x) | Ty::Alias(_, x) => strip(x),
                other => (other, false),
            }
        }
        let (inner, _top_boxed) = strip(&f.ty);
        // documented normalisation: a Box anywhere in the written field type is kept as ONE Box
        // around the whole field (the registry only records the substring `Box<` of the name)
        let boxed = self.prog_type_name_has_box(f);
        let alloc = self.d.alloc_str();
        let (spelled, compact) = match inner {
            Ty::Compact(x) => (self.ty(x, false), true),
            other => (self.ty(other, !boxed), f.compact),
        };
        // Box around a compact field is dropped by the generator (it cannot compile otherwise)
        if boxed && !compact {
            (format!("{alloc}::boxed::Box<{spelled}>"), compact)
        } else {
            (spelled, compact)
        }
    }

    fn prog_type_name_has_box(&self, f: &FieldDecl) -> bool {
        // the Box is visible to the generator only through the recorded type name
        let mut has = false;
        f.ty.walk(&mut |t| {
            if matches!(t, Ty::Box(_)) {
                has = true
            }
            if let Ty::Alias(..) = t {
                // an alias hides what is inside (walk descends, but the name does not show it)
            }
        });
        has
    }
}

#[derive(Debug, Clone, PartialEq)]
struct ExpItem {
    generics: Vec<String>,
    is_enum: bool,
    /// (variant name or "", index, fields [(name, type, compact)])
    groups: Vec<(String, Option<u8>, Vec<(Option<String>, String, bool)>)>,
    marker: BTreeSet<String>,
}

fn is_phantom_field(f: &FieldDecl) -> bool {
    sim::is_phantom(&f.ty)
}

fn expected_item(prog: &Program, d: &SDesc, dix: usize, e: &mut Exp) -> ExpItem {
    let def = &prog.defs[dix];
    let generics: Vec<String> = def.params.iter().enumerate().filter(|(_, p)| !p.skipped).map(|(i, _)| format!("_{i}")).collect();
    let mut used: BTreeSet<usize> = BTreeSet::new();
    let mut mark = |t: &Ty| {
        t.walk(&mut |x| {
            if let Ty::Param(i) = x {
                used.insert(*i);
            }
        })
    };
    let mut groups = Vec::new();
    let mut fields_of = |fs: &[FieldDecl], e: &mut Exp| -> Vec<(Option<String>, String, bool)> {
        fs.iter()
            .filter(|f| !f.skip && !is_phantom_field(f))
            .map(|f| {
                // parameters inside PhantomData tuple members do not count as used
                let mut stripped = f.ty.clone();
                fn drop_phantoms(t: &mut Ty) {
                    if let Ty::Tuple(ts) = t {
                        ts.retain(|x| !matches!(x, Ty::Phantom(_)));
                    }
                    match t {
                        Ty::Vec(x) | Ty::VecDeque(x) | Ty::Array(x, _) | Ty::Option(x) | Ty::Box(x) | Ty::Cow(x) | Ty::BTreeSet(x) | Ty::BinaryHeap(x) | Ty::Range(x) | Ty::RangeInclusive(x) | Ty::Compact(x) | Ty::Alias(_, x) => drop_phantoms(x),
                        Ty::Result(a, b) | Ty::BTreeMap(a, b) => {
                            drop_phantoms(a);
                            drop_phantoms(b)
                        }
                        Ty::Tuple(ts) | Ty::Def(_, ts) => ts.iter_mut().for_each(drop_phantoms),
                        _ => {}
                    }
                }
                drop_phantoms(&mut stripped);
                mark(&stripped);
                let (ty, compact) = e.field(f);
                (f.name.clone(), ty, compact)
            })
            .collect()
    };
    match &def.kind {
        DefKind::Struct(_, fs) => groups.push((String::new(), None, fields_of(fs, e))),
        DefKind::Enum(vs) => {
            for (i, v) in vs.iter().enumerate() {
                groups.push((v.name.clone(), Some(v.index.unwrap_or(i as u8)), fields_of(&v.fields, e)));
            }
        }
    }
    // arguments passed at skipped positions of other definitions are not recorded: a parameter
    // used only there counts as unused; the walk above sees them as used, so recompute through
    // the spelled types
    let spelled: String = groups.iter().flat_map(|g| g.2.iter().map(|f| f.1.clone())).collect::<Vec<_>>().join(" ");
    let marker: BTreeSet<String> = def
        .params
        .iter()
        .enumerate()
        .filter(|(_, p)| !p.skipped)
        .map(|(i, _)| format!("_{i}"))
        .filter(|g| !contains_ident(&spelled, g))
        .collect();
    let _ = used;
    ExpItem { generics, is_enum: matches!(def.kind, DefKind::Enum(_)), groups, marker }
}

fn contains_ident(hay: &str, ident: &str) -> bool {
    let mut from = 0;
    while let Some(p) = hay[from..].find(ident) {
        let s = from + p;
        let e = s + ident.len();
        let before = hay[..s].chars().last().map(|c| c.is_alphanumeric() || c == '_').unwrap_or(false);
        let after = hay[e..].chars().next().map(|c| c.is_alphanumeric() || c == '_').unwrap_or(false);
        if !before && !after {
            return true;
        }
        from = e;
    }
    false
}

fn actual_item(item: &Item, cl: &Classifier) -> ExpItem {
    let mut marker = BTreeSet::new();
    let mut read = |fs: &FieldsM, marker: &mut BTreeSet<String>| -> Vec<(Option<String>, String, bool)> {
        let mut out = Vec::new();
        for f in &fs.fields {
            if let CHead::Phantom(args) = cl.classify(&f.ty) {
                // marker: PhantomData<_0> or PhantomData<(_0, _1)>
                for a in args {
                    match cl.classify(&a) {
                        CHead::Tuple(es) => es.iter().for_each(|e| {
                            marker.insert(nows(&ts(e)));
                        }),
                        _ => {
                            marker.insert(nows(&ts(&a)));
                        }
                    }
                }
                continue;
            }
            out.push((f.name.clone(), nows(&ts(&f.ty)), f.compact));
        }
        out
    };
    let mut groups = Vec::new();
    match &item.kind {
        ItemKind::Struct(f) => groups.push((String::new(), None, read(f, &mut marker))),
        ItemKind::Enum(vs) => {
            for v in vs {
                if v.name == "__Ignore" {
                    read(&v.fields, &mut marker);
                    continue;
                }
                groups.push((v.name.clone(), v.index, read(&v.fields, &mut marker)));
            }
        }
    }
    ExpItem { generics: item.generics.clone(), is_enum: matches!(item.kind, ItemKind::Enum(_)), groups, marker }
}

pub fn judge(ctx: &mut Ctx, prog: &Program, orders: &[Vec<Ty>], d: &SDesc, replay: &dyn Fn() -> serde_json::Value) -> bool {
    let cl = Classifier::new(d);
    let mut per_order: Vec<BTreeMap<Vec<String>, String>> = Vec::new();
    let mut nontrivial = false;
    for (oi, roots) in orders.iter().enumerate() {
        let mut out = sim::simulate_roots(prog, roots);
        if oi > 0 && oi + 1 == orders.len() {
            // the other route to the same module: de-duplicate paths first (a no-op on these
            // programs: every path is carried by instantiations of one definition), then generate
            match guard(|| scale_typegen::utils::ensure_unique_type_paths(&mut out.registry)) {
                Ok(Ok(())) => ctx.count("dedup_then_generate_routes", 1),
                Ok(Err(e)) => {
                    ctx.violation("C05:dedup-route-fails", format!("ensure_unique_type_paths fails on a coincidence-free program: {e}"), replay());
                    return false;
                }
                Err(p) => {
                    ctx.violation(format!("C05:dedup-route-panics:{}", p.signature()), p.msg.clone(), replay());
                    return false;
                }
            }
        }
        let (gen, events) = generate_model(&out.registry, d);
        tally(&events, &mut ctx.res.counters);
        let gen = match gen {
            Ok(g) => g,
            Err(e) => {
                if e == "error:DuplicateTypePath" {
                    ctx.violation(
                        "C05:instantiations-not-one-item",
                        format!("coincidence-free instantiations of one definition do not share one item: generation fails with DuplicateTypePath (order {oi})"),
                        replay(),
                    );
                } else {
                    ctx.count(&format!("generation[{e}]"), 1);
                }
                return false;
            }
        };
        per_order.push(gen.cm.items.iter().map(|(p, i)| (p.clone(), i.tokens.clone())).collect());
        if oi > 0 {
            ctx.count("orders_compared", 1);
            if per_order[0] != per_order[oi] {
                let diff: Vec<String> = per_order[0].iter().filter(|(p, t)| per_order[oi].get(*p) != Some(*t)).map(|(p, _)| p.join("::")).take(3).collect();
                ctx.violation("C05:item-depends-on-instantiation-order", format!("items {diff:?} differ between registration orders 0 and {oi}"), replay());
            }
            continue;
        }
        // order 0: compare every definition with the expectation computed from the source
        let registered: BTreeSet<usize> = out.def_insts.values().map(|(dx, _)| *dx).collect();
        for dix in registered {
            let mut e = Exp { prog, d, nested_params: 0, direct_params: 0 };
            let want = expected_item(prog, d, dix, &mut e);
            let mut path = vec![d.root.clone()];
            path.extend(prog.def_path(dix));
            let Some(item) = gen.cm.items.get(&path) else {
                ctx.violation("C05:definition-not-emitted", format!("{} has no item", path.join("::")), replay());
                continue;
            };
            let got = actual_item(item, &cl);
            ctx.count("definitions_compared", 1);
            ctx.count("nested_parameter_positions", e.nested_params);
            ctx.count("direct_parameter_positions", e.direct_params);
            if !want.generics.is_empty() {
                ctx.count("generic_definitions_compared", 1);
                let n_inst = out.def_insts.values().filter(|(dx, _)| *dx == dix).count();
                if n_inst >= 2 && e.nested_params > 0 {
                    nontrivial = true;
                }
            }
            if !want.marker.is_empty() {
                ctx.count("markers_expected", 1);
            }
            if want != got {
                let kind = if want.generics != got.generics {
                    "generics"
                } else if want.marker != got.marker {
                    "marker"
                } else if want.groups.len() != got.groups.len() {
                    "variants"
                } else {
                    "field-types"
                };
                ctx.violation(
                    format!("C05:{kind}"),
                    format!("{}: expected from the source {:?}, emitted {:?}", path.join("::"), want, got),
                    replay(),
                );
            }
        }
    }
    nontrivial
}

pub fn run(ctx: &mut Ctx) {
    let n = ctx.tier.pick(12_000u64, 300_000u64);
    for case in 0..n {
        if !ctx.mine(case) {
            continue;
        }
        let mut rng = ctx.rng("c05", case);
        let mut cfg = GenCfg::default();
        cfg.p_assoc = 0.0;
        cfg.max_insts = 6;
        cfg.max_defs = 6;
        cfg.allow_alias = false;
        let prog = ProgGen::new(&mut rng, cfg).gen_program();
        let out = sim::simulate(&prog);
        let noncf: Vec<u32> = sim::cf_source(&prog, &out).iter().filter(|(_, x)| x.is_some()).map(|(i, _)| *i).collect();
        if !noncf.is_empty() {
            ctx.count("rejected_not_cf_instantiation_sets", 1);
            continue;
        }
        // same-path families must be instantiations of one definition only (no hostile clashes)
        let mut orders = vec![prog.roots.clone()];
        for _ in 0..2 {
            let mut r = prog.roots.clone();
            r.shuffle(&mut rng);
            orders.push(r);
        }
        let mut d = SDesc::default();
        d.root = pick_root(&mut rng, &out.registry);
        d.alloc = if rng.gen_bool(0.5) { None } else { Some("::alloc".into()) };
        ctx.begin_case(&format!("c05 case {case}"));
        let pj = serde_json::to_value(&prog).unwrap();
        let dj = serde_json::to_value(&d).unwrap();
        let oj = serde_json::to_value(&orders).unwrap();
        let nt = judge(ctx, &prog, &orders, &d, &|| json!({"kind": "c05", "program": pj, "orders": oj, "sdesc": dj, "source": prog.render_source("TypeInfo")}));
        ctx.case(hash_of(&serde_json::to_string(&prog).unwrap()), nt);
        if ctx.res.samples.len() < 2 && nt {
            ctx.sample(json!({"source": prog.render_source("TypeInfo").lines().skip(3).take(14).collect::<Vec<_>>(), "instantiations": prog.roots.len()}));
        }
    }
    let _ = reg::fingerprint;
}

pub fn replay(ctx: &mut Ctx, v: &serde_json::Value) {
    let prog: Program = serde_json::from_value(v["program"].clone()).expect("program");
    let orders: Vec<Vec<Ty>> = serde_json::from_value(v["orders"].clone()).expect("orders");
    let d: SDesc = serde_json::from_value(v["sdesc"].clone()).expect("sdesc");
    if std::env::var("VERIF_DEBUG").is_ok() {
        for (i, roots) in orders.iter().enumerate() {
            let out = sim::simulate_roots(&prog, roots);
            let run = generate(&out.registry, &d.build());
            if let GenOutcome::Err(e) = &run.outcome {
                eprintln!("order {i}: {e}");
                for ev in run.events.iter().filter(|e| e.tag.starts_with("te:") || e.tag == "gen:occupied") {
                    eprintln!("   {} {} {} {}", ev.tag, ev.a, ev.b, ev.c);
                }
                for t in &out.registry.types {
                    if !t.ty.path.segments.is_empty() {
                        eprintln!("   {} {}", t.id, serde_json::to_string(&t.ty).unwrap().chars().take(260).collect::<String>());
                    }
                }
            }
        }
    }
    let vv = v.clone();
    let nt = judge(ctx, &prog, &orders, &d, &move || vv.clone());
    ctx.case(0, nt);
}

//! C03 — no silent conflation: differently shaped types never share an item.

use crate::bisim::Bisim;
use crate::cmodel::*;
use crate::ev::*;
use crate::families::*;
use crate::gen::*;
use crate::prog::*;
use crate::reg;
use crate::regeq::reg_equiv;
use crate::sdesc::SDesc;
use crate::settingsgen::pick_root;
use crate::sim;
use scale_info::PortableRegistry;
use serde_json::json;
use std::collections::{BTreeMap, BTreeSet};

pub const META: PropMeta = PropMeta {
    id: "C03",
    level: "exploration",
    rule: "cases = registries containing same-path families, each in every registration order: (A) all generic definitions Foo<T> with 1..3 fields from the pool {u8,u32,T, Vec<.>, Option<.>, G<.>, (.,.), Vec<Self>, Option<Vec<.>>, Box<.>, Option<Box<.>>} with every ordered selection of 2..3 instantiations out of {u8,u32,bool} (quick: index-strided subsample; thorough: the complete space, exhaustive=true refers to it); (B) all associated-type families Foo<T: Cfg> with 1..2 fields over {u8, T::A0, T::A1, wrappers}, every pair of A0 choices out of 5, parameter skipped or not, both orders; (C) random larger families (two parameters, enums, sibling names Foo1/Foo2/Foo11, 2..4 members); (D) 'two versions of one crate': a random program merged with an edited copy under identical paths; (E) Polkadot. Oracle, outcome based: generate_types_mod on the raw registry and on the registry after ensure_unique_type_paths; Err(DuplicateTypePath) is always acceptable; on Ok every member of every same-path family must be bisimilar (pair-coinductive, C01's relation) to the single emitted item instantiated with the member's own arguments; after de-duplication any two entries still sharing a path must be same-shaped by the oracle's own relation (regeq). non-trivial = the registry has a family with >= 2 members and generation returned Ok or DuplicateTypePath; distinct by registry hash.",
    assumptions: &[
        "hook events of types_equal are used for diagnosis text and coverage counters only; verdicts come from the emitted module",
    ],
    required_counters: &["hook[te:query]", "hook[gen:occupied]", "members_related", "raw[DuplicateTypePath]", "raw[ok]", "rendering_switch_verdicts_compared"],
    floor: (3000, 100_000),
    shards: (16, 16),
};

pub struct FamCase<'a> {
    pub reg: &'a PortableRegistry,
    pub noncf: &'a BTreeSet<u32>,
    pub label: String,
    pub source: Option<String>,
}

fn site_summary(events: &[scale_typegen::verif_hooks::Event], n: u32, k: u32) -> String {
    // the events following the last te:query marker for this pair, up to the next marker
    let mut tags: BTreeSet<&'static str> = BTreeSet::new();
    let mut on = false;
    for e in events {
        if e.tag == "te:query" {
            on = (e.a == n && e.b == k) || (e.a == k && e.b == n);
            if on {
                tags.clear();
            }
            continue;
        }
        if on && e.tag.starts_with("te:") {
            tags.insert(e.tag);
        }
    }
    tags.into_iter().collect::<Vec<_>>().join("+")
}

fn check_members(
    ctx: &mut Ctx,
    c: &FamCase,
    reg: &PortableRegistry,
    stage: &str,
    events: &[scale_typegen::verif_hooks::Event],
    gen: &Generated,
    d: &SDesc,
) {
    let settings = d.build();
    let cl = Classifier::new(d);
    // families by the paths of *this* registry
    for (path, ids) in reg::families(reg) {
        if ids.len() < 2 {
            continue;
        }
        let kept = ids[0];
        for &n in &ids {
            let ts = match resolve_path(reg, &settings, n) {
                Ok(Ok(ts)) => ts,
                _ => {
                    ctx.count("member_resolve_failed", 1);
                    continue;
                }
            };
            let Ok(ty) = syn::parse2::<syn::Type>(ts.clone()) else {
                ctx.count("member_type_unparsable", 1);
                continue;
            };
            let mut b = Bisim::new(reg, &gen.cm, &cl, true);
            match b.rel(n, &ty) {
                Ok(()) => ctx.count("members_related", 1),
                Err(div) => {
                    // classify at the outermost enclosing generated type whose family merged two
                    // differently shaped members (the culprit); none => the item is mis-rendered
                    let mut inner = n;
                    let mut inner_kept = kept;
                    let mut same = true;
                    let tainted = reg::tainted_by_coincidence(reg, c.noncf);
                    let mut involved_noncf = reg::coincidence_involved(reg, &[n, kept], &tainted);
                    let all_fams = reg::families(reg);
                    for e in std::iter::once(&n).chain(div.enclosing.iter()) {
                        let p = reg.resolve(*e).map(|t| t.path.segments.clone()).unwrap_or_default();
                        let Some(fam) = all_fams.get(&p) else { continue };
                        if fam.iter().any(|i| c.noncf.contains(i)) {
                            involved_noncf = true;
                        }
                        if fam[0] != *e && !(reg_equiv(reg, *e, fam[0]) && reg_equiv(reg, fam[0], *e)) {
                            inner = *e;
                            inner_kept = fam[0];
                            same = false;
                            break;
                        }
                    }
                    let class = if involved_noncf {
                        "coincidence".to_string()
                    } else if !same {
                        "unequal-shapes-merged".to_string()
                    } else {
                        format!("misrendered:{}", div.kind)
                    };
                    ctx.violation(
                        format!("C03:conflation:{class}"),
                        format!(
                            "{stage}: generation succeeded but member id {n} of family {} (kept id {kept}) is not represented by the emitted item: {}; types_equal sites: [{}]; case {}",
                            path.join("::"),
                            div.render(),
                            site_summary(events, inner, inner_kept),
                            c.label
                        ),
                        json!({"kind": "registry", "registry": reg::to_json(c.reg), "noncf": c.noncf, "label": c.label, "source": c.source}),
                    );
                }
            }
        }
    }
}

pub fn judge_case(ctx: &mut Ctx, c: &FamCase) -> bool {
    let mut d = SDesc::default();
    d.root = {
        let mut rng = ctx.rng("root", 0);
        let r = pick_root(&mut rng, c.reg);
        if reg::families(c.reg).keys().any(|p| p.contains(&"root".to_string())) { r } else { "root".into() }
    };
    let fams = reg::families(c.reg);
    let has_family = fams.values().any(|v| v.len() >= 2);
    ctx.count("families", fams.values().filter(|v| v.len() >= 2).count() as u64);
    let mut decided = false;
    // raw
    let (gen, events) = generate_model(c.reg, &d);
    tally(&events, &mut ctx.res.counters);
    match &gen {
        Ok(g) => {
            ctx.count("raw[ok]", 1);
            decided = true;
            check_members(ctx, c, c.reg, "raw registry", &events, g, &d);
        }
        Err(e) if e == "error:DuplicateTypePath" => {
            ctx.count("raw[DuplicateTypePath]", 1);
            decided = true;
        }
        Err(e) => ctx.count(&format!("raw[{e}]"), 1),
    }
    // whether same-path entries are one shape is a statement about the registry: the verdict (Ok /
    // DuplicateTypePath) must not depend on rendering switches - with codec attributes and docs
    // off, variant indices and compact markers are not even written, yet they are shape
    if has_family {
        let mut bare = d.clone();
        bare.codec_attrs = false;
        bare.docs = false;
        let (gen_bare, _) = generate_model(c.reg, &bare);
        let verdict = |g: &Result<Generated, String>| match g {
            Ok(_) => "ok".to_string(),
            Err(e) => e.clone(),
        };
        ctx.count("rendering_switch_verdicts_compared", 1);
        if verdict(&gen) != verdict(&gen_bare) {
            ctx.violation(
                "C03:verdict-depends-on-rendering-switches",
                format!("with codec attributes and docs on generation gives `{}`, with both off `{}`; case {}", verdict(&gen), verdict(&gen_bare), c.label),
                json!({"kind": "registry", "registry": reg::to_json(c.reg), "noncf": c.noncf, "label": c.label, "source": c.source}),
            );
        }
    }
    // after de-duplication
    let mut r2 = c.reg.clone();
    scale_typegen::verif_hooks::start();
    let dd = guard(|| scale_typegen::utils::ensure_unique_type_paths(&mut r2));
    let dd_events = scale_typegen::verif_hooks::take();
    tally(&dd_events, &mut ctx.res.counters);
    match dd {
        Ok(Ok(())) => {
            ctx.count("dedup[ok]", 1);
            // (B) path mates must be same-shaped
            for (path, ids) in reg::families(&r2) {
                for w in ids.windows(2) {
                    // compare each member with the first (classes are built against group heads)
                    let (a, b) = (ids[0], w[1]);
                    if !(reg_equiv(&r2, a, b) && reg_equiv(&r2, b, a)) {
                        // a coincidence anywhere below either entry (it makes the grouping of a
                        // nested family differ, which renaming then turns into a path difference)
                        let tainted = reg::tainted_by_coincidence(c.reg, c.noncf);
                        let involved_noncf = reg::coincidence_involved(c.reg, &[a, b], &tainted);
                        ctx.violation(
                            format!(
                                "C03:dedup-left-different-shapes:{}",
                                if involved_noncf { "coincidence" } else { "unequal-shapes-merged" }
                            ),
                            format!(
                                "after ensure_unique_type_paths ids {a} and {b} still share path {} but are differently shaped; types_equal sites: [{}]; case {}",
                                path.join("::"),
                                site_summary(&dd_events, a, b),
                                c.label
                            ),
                            json!({"kind": "registry", "registry": reg::to_json(c.reg), "noncf": c.noncf, "label": c.label, "source": c.source}),
                        );
                    }
                }
            }
            let (gen2, events2) = generate_model(&r2, &d);
            tally(&events2, &mut ctx.res.counters);
            match &gen2 {
                Ok(g) => {
                    ctx.count("dedup_then[ok]", 1);
                    check_members(ctx, c, &r2, "after ensure_unique_type_paths", &events2, g, &d);
                }
                Err(e) => ctx.count(&format!("dedup_then[{e}]"), 1),
            }
        }
        Ok(Err(e)) => ctx.count(&format!("dedup[error:{}]", err_kind(&e)), 1),
        Err(p) => ctx.count(&format!("dedup[panic:{}]", p.signature()), 1),
    }
    has_family && decided
}

fn sim_family(ctx: &mut Ctx, prog: &Program, label: String) {
    let out = sim::simulate(prog);
    // only id coincidences (CF-1/CF-2) make a conflation expected; a parameter under a transparent
    // wrapper (CF-3) is never a reason for one
    let noncf: BTreeSet<u32> = sim::coincidences(prog, &out);
    ctx.count("noncf_members", noncf.len() as u64);
    let src = prog.render_source("TypeInfo");
    let c = FamCase { reg: &out.registry, noncf: &noncf, label: label.clone(), source: Some(src.clone()) };
    ctx.begin_case(&label);
    let nt = judge_case(ctx, &c);
    ctx.case(reg::fingerprint(&out.registry), nt);
    if ctx.res.samples.len() < 3 {
        ctx.sample(json!({"label": label, "source": src.lines().skip(3).collect::<Vec<_>>(), "registry_entries": out.registry.types.len()}));
    }
}

pub fn run(ctx: &mut Ctx) {
    // (A) generic families
    let total_a = generic1_size();
    let stride_a = ctx.tier.pick(9u64, 1u64);
    let mut i = 0u64;
    let mut n_a = 0u64;
    while i < total_a {
        if ctx.mine(i / stride_a) {
            // offset inside the stride window varies with the seed so that repeated quick runs
            // cover different residues
            let idx = (i + (ctx.seed % stride_a)).min(total_a - 1);
            sim_family(ctx, &generic1_case(idx), format!("generic1#{idx}"));
            n_a += 1;
        }
        i += stride_a;
    }
    ctx.count("enumerated_generic1", n_a);
    // (B) associated-type families
    let total_b = assoc_size();
    let stride_b = ctx.tier.pick(7u64, 1u64);
    let mut i = 0u64;
    let mut n_b = 0u64;
    while i < total_b {
        if ctx.mine(i / stride_b) {
            let idx = (i + (ctx.seed % stride_b)).min(total_b - 1);
            sim_family(ctx, &assoc_case(idx), format!("assoc#{idx}"));
            n_b += 1;
        }
        i += stride_b;
    }
    ctx.count("enumerated_assoc", n_b);
    if stride_a == 1 && stride_b == 1 {
        ctx.res.exhaustive = Some(true);
    }
    if ctx.shard == 0 {
        ctx.count("space_generic1", total_a);
        ctx.count("space_assoc", total_b);
    }
    // (C) random larger families
    let n_c = ctx.tier.pick(4000u64, 120_000u64);
    for case in 0..n_c {
        if !ctx.mine(case) {
            continue;
        }
        let mut rng = ctx.rng("random-family", case);
        let prog = random_family(&mut rng);
        sim_family(ctx, &prog, format!("random-family#{case}"));
    }
    // (D) two versions of one crate
    let n_d = ctx.tier.pick(1500u64, 40_000u64);
    for case in 0..n_d {
        if !ctx.mine(case) {
            continue;
        }
        let mut rng = ctx.rng("two-versions", case);
        let mut cfg = GenCfg::default();
        cfg.max_defs = 4;
        let p1 = ProgGen::new(&mut rng, cfg).gen_program();
        let mut p2 = p1.clone();
        let what = edit_program(&mut rng, &mut p2);
        // either version may come first in the registry
        let (p1, p2) = if case % 2 == 1 { (p2, p1) } else { (p1, p2) };
        let o1 = sim::simulate(&p1);
        let o2 = sim::simulate(&p2);
        let merged = merge(&o1.registry, &o2.registry);
        let off = o1.registry.types.len() as u32;
        let mut noncf: BTreeSet<u32> =
            sim::coincidences(&p1, &o1);
        noncf.extend(sim::coincidences(&p2, &o2).iter().map(|i| *i + off));
        let label = format!("two-versions#{case}: {what}");
        let c = FamCase { reg: &merged, noncf: &noncf, label: label.clone(), source: Some(format!("// version 1\n{}\n// version 2\n{}", p1.render_source("TypeInfo"), p2.render_source("TypeInfo"))) };
        ctx.begin_case(&label);
        let nt = judge_case(ctx, &c);
        ctx.case(reg::fingerprint(&merged), nt);
        ctx.count("two_version_cases", 1);
    }
    // (C') hand-written single-crate families
    for (i, (what, prog)) in families_gallery().into_iter().enumerate() {
        if ctx.mine(i as u64) {
            sim_family(ctx, &prog, format!("families-gallery#{i}: {what}"));
            ctx.count("families_gallery_cases", 1);
        }
    }
    // (D') hand-written two-versions pairs, both registration orders
    for (i, (what, p1, p2)) in versions_gallery().into_iter().enumerate() {
        if !ctx.mine(i as u64) {
            continue;
        }
        for flip in [false, true] {
            let (pa, pb) = if flip { (&p2, &p1) } else { (&p1, &p2) };
            let (o1, o2) = (sim::simulate(pa), sim::simulate(pb));
            let merged = merge(&o1.registry, &o2.registry);
            let off = o1.registry.types.len() as u32;
            let mut noncf: BTreeSet<u32> = sim::coincidences(pa, &o1);
            noncf.extend(sim::coincidences(pb, &o2).iter().map(|i| *i + off));
            let label = format!("two-versions-gallery#{i}{}: {what}", if flip { " (flipped)" } else { "" });
            let c = FamCase { reg: &merged, noncf: &noncf, label: label.clone(), source: Some(format!("// version 1\n{}\n// version 2\n{}", pa.render_source("TypeInfo"), pb.render_source("TypeInfo"))) };
            ctx.begin_case(&label);
            let nt = judge_case(ctx, &c);
            ctx.case(reg::fingerprint(&merged), nt);
            ctx.count("two_version_gallery_cases", 1);
        }
    }
    // (E) Polkadot
    if ctx.shard == 0 {
        let polka = reg::load_polkadot();
        let noncf: BTreeSet<u32> =
            polka.types.iter().filter(|t| reg::non_cf_reason(&polka, t.id).is_some()).map(|t| t.id).collect();
        let c = FamCase { reg: &polka, noncf: &noncf, label: "polkadot".into(), source: None };
        ctx.begin_case("polkadot");
        let nt = judge_case(ctx, &c);
        ctx.case(reg::fingerprint(&polka), nt);
    }
}

pub fn replay(ctx: &mut Ctx, v: &serde_json::Value) {
    let reg = reg::from_json(&v["registry"]);
    let noncf: BTreeSet<u32> = serde_json::from_value(v["noncf"].clone()).unwrap_or_default();
    let c = FamCase { reg: &reg, noncf: &noncf, label: v["label"].as_str().unwrap_or("replay").to_string(), source: None };
    let nt = judge_case(ctx, &c);
    ctx.case(reg::fingerprint(&reg), nt);
    let _: BTreeMap<u32, u32> = BTreeMap::new();
}

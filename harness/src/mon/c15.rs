//! C15 — the description formatter only inserts whitespace and is total.

use crate::ev::*;
use rand::Rng;
use scale_typegen_description::format_type_description;
use serde_json::json;

pub const META: PropMeta = PropMeta {
    id: "C15",
    level: "exploration",
    rule: "inputs: every string over the 9-character alphabet `{}()<>,a ` up to length 7 (quick) / 9 (thorough), enumerated completely (exhaustive=true refers to this finite space); random strings up to length 400 built from nested scopes whose bodies straddle the 32-character look-ahead; 9..40 and 41..130 scopes open at once (mixed kinds and one bracket kind only); deep unbalanced closers; every type description produced for generated registries and for Polkadot ids. Oracles per input: no panic; output length <= n*(4n+3); whitespace-stripped output == whitespace-stripped input; for properly nested whitespace-free input an output-side indentation checker (scope 'broken' iff its opener is directly followed by a newline; after every newline exactly 4 spaces per open broken scope, minus one level before the closer of a broken scope, which must start a line of its own, plus the one separating space before `{`). non-trivial = contains a bracket or comma; distinct by construction for the enumeration, by hash for random inputs.",
    assumptions: &["strings beyond the enumerated length are sampled, not enumerated"],
    required_counters: &["indent_rule_checked", "newlines_checked", "big_scopes_seen", "small_scopes_seen", "closers_of_broken_scopes_on_own_line"],
    floor: (1_000_000, 50_000_000),
    shards: (16, 16),
};

const ALPHABET: [char; 9] = ['{', '}', '(', ')', '<', '>', ',', 'a', ' '];

pub struct FmtObs {
    pub newlines: u64,
    pub big: u64,
    pub small: u64,
    pub broken_closers: u64,
    pub indent_checked: bool,
}

fn strip_ws(s: &str) -> String {
    s.chars().filter(|c| !c.is_whitespace()).collect()
}

fn properly_nested(s: &str) -> bool {
    let mut st = Vec::new();
    for c in s.chars() {
        match c {
            '{' | '(' | '<' => st.push(c),
            '}' => {
                if st.pop() != Some('{') {
                    return false;
                }
            }
            ')' => {
                if st.pop() != Some('(') {
                    return false;
                }
            }
            '>' => {
                if st.pop() != Some('<') {
                    return false;
                }
            }
            _ => {}
        }
    }
    st.is_empty()
}

/// Output-side indentation checker. Returns Err(description) on a violation of the indentation
/// clause. Only called for properly nested whitespace-free input.
fn check_indent(out: &str, obs: &mut FmtObs) -> Result<(), String> {
    let ch: Vec<char> = out.chars().collect();
    // stack of (opener, broken?)
    let mut st: Vec<(char, bool)> = Vec::new();
    let mut i = 0;
    while i < ch.len() {
        let c = ch[i];
        match c {
            '{' | '(' | '<' => {
                let broken = ch.get(i + 1) == Some(&'\n');
                if broken {
                    obs.big += 1
                } else {
                    obs.small += 1
                }
                st.push((c, broken));
                i += 1;
            }
            '}' | ')' | '>' => {
                // "a closing bracket is written at its opener's depth": the closer of a scope that
                // was broken over several lines starts a line of its own (the number of spaces on
                // that line is judged at the line break)
                if let Some((_, true)) = st.pop() {
                    let mut k = i;
                    while k > 0 && ch[k - 1] == ' ' {
                        k -= 1;
                    }
                    if k == 0 || ch[k - 1] != '\n' {
                        return Err(format!(
                            "the closer {c:?} at output offset {i} ends a scope that was broken over several lines but does not start a line of its own ({} scopes still open)",
                            st.len()
                        ));
                    }
                    obs.broken_closers += 1;
                }
                i += 1;
            }
            '\n' => {
                obs.newlines += 1;
                let mut j = i + 1;
                while j < ch.len() && ch[j] == ' ' {
                    j += 1;
                }
                let spaces = j - (i + 1);
                let next = ch.get(j).copied();
                let open_broken = st.iter().filter(|s| s.1).count();
                let mut want = 4 * open_broken;
                match next {
                    Some('}') | Some(')') | Some('>') => {
                        if st.last().map(|s| s.1).unwrap_or(false) {
                            want -= 4;
                        }
                    }
                    Some('{') => want += 1,
                    Some('\n') | None => {
                        // a line break directly followed by another one / end: the spaces still
                        // have to match the depth
                    }
                    _ => {}
                }
                if spaces != want {
                    return Err(format!(
                        "line break at output offset {i} is followed by {spaces} spaces, expected {want} ({} broken scopes open, next char {:?})",
                        open_broken, next
                    ));
                }
                i = j;
            }
            _ => i += 1,
        }
    }
    if !st.is_empty() {
        return Err("output does not end at depth zero".into());
    }
    Ok(())
}

/// Full oracle for one input. Returns (key, description) on violation.
pub fn check_format(input: &str, obs: &mut FmtObs) -> Result<(), (String, String)> {
    let out = match guard(|| format_type_description(input)) {
        Ok(o) => o,
        Err(p) => return Err((format!("C15:panic:{}", p.signature()), format!("formatter panicked: {}", p.msg))),
    };
    let n = input.chars().count();
    if out.chars().count() > n * (4 * n + 3) {
        return Err(("C15:length-bound".into(), format!("output length {} exceeds n*(4n+3)", out.chars().count())));
    }
    if strip_ws(&out) != strip_ws(input) {
        return Err(("C15:content-changed".into(), format!("non-whitespace content differs: output {:?}", out)));
    }
    if !input.chars().any(|c| c.is_whitespace()) && properly_nested(input) {
        obs.indent_checked = true;
        if let Err(e) = check_indent(&out, obs) {
            return Err(("C15:indentation".into(), format!("{e}; output {:?}", out)));
        }
    }
    Ok(())
}

fn nth_string(len: usize, mut idx: u64) -> String {
    let mut s = String::with_capacity(len);
    for _ in 0..len {
        s.push(ALPHABET[(idx % 9) as usize]);
        idx /= 9;
    }
    s
}

fn gen_scope<R: Rng>(rng: &mut R, depth: usize, out: &mut String) {
    let kind = rng.gen_range(0..3);
    let (o, c) = [('{', '}'), ('(', ')'), ('<', '>')][kind];
    out.push(o);
    // body length around the 32-character look-ahead
    let target = if rng.gen_bool(0.6) { rng.gen_range(26..38) } else { rng.gen_range(0..12) };
    let start = out.len();
    while out.len() - start < target {
        match rng.gen_range(0..10) {
            0 | 1 if depth < 5 => gen_scope(rng, depth + 1, out),
            2 | 3 => out.push(','),
            4 => out.push(':'),
            _ => out.push(['a', 'b', 'u', '8', 'x'][rng.gen_range(0..5)]),
        }
    }
    out.push(c);
}

pub fn random_input<R: Rng>(rng: &mut R) -> String {
    let mut s = String::new();
    match rng.gen_range(0..11) {
        10 => {
            // deep nesting: 9..40 scopes open at once (indentation far beyond the everyday case)
            // ... and, every third time, 41..130 scopes, half of those of ONE bracket kind (a
            // per-kind scope stack of fixed capacity shows only there); the nesting itself makes
            // all but the innermost scopes big, so no filler is needed
            let very_deep = rng.gen_range(0..3) == 0;
            let depth = if very_deep { rng.gen_range(41..130) } else { rng.gen_range(9..40) };
            let one_kind = if very_deep && rng.gen_bool(0.5) { Some(rng.gen_range(0..3)) } else { None };
            let mut closers = Vec::new();
            for _ in 0..depth {
                let (o, c) = [('{', '}'), ('(', ')'), ('<', '>')][one_kind.unwrap_or_else(|| rng.gen_range(0..3))];
                s.push_str(["x", "ab", ""][rng.gen_range(0..3)]);
                s.push(o);
                if o != '{' && !very_deep {
                    // make the scope big: more than 32 characters before it closes
                    s.push_str("aaaaaaaaaaaaaaaaaaaaaaaaaaaaaaaaaaaa,");
                }
                closers.push(c);
            }
            s.push_str("u8,u8");
            while let Some(c) = closers.pop() {
                s.push(c);
            }
        }
        0 => {
            // unbalanced closers / openers
            let n = rng.gen_range(1..60);
            for _ in 0..n {
                s.push(ALPHABET[rng.gen_range(0..9)]);
            }
        }
        1 => {
            let n = rng.gen_range(1..40);
            for _ in 0..n {
                s.push(['}', ')', '>'][rng.gen_range(0..3)]);
            }
            gen_scope(rng, 0, &mut s);
        }
        2 => {
            // whitespace and unicode in the input
            gen_scope(rng, 0, &mut s);
            let pos = rng.gen_range(0..=s.len());
            s.insert_str(pos, [" ", "\n", "\t", "é", "  "][rng.gen_range(0..5)]);
        }
        _ => {
            s.push_str(["struct A", "enum E", "", "x"][rng.gen_range(0..4)]);
            while s.len() < rng.gen_range(10..400) {
                gen_scope(rng, 0, &mut s);
                if rng.gen_bool(0.5) {
                    s.push(',');
                }
            }
        }
    }
    s
}

fn record(ctx: &mut Ctx, obs: &FmtObs) {
    ctx.count("newlines_checked", obs.newlines);
    ctx.count("big_scopes_seen", obs.big);
    ctx.count("closers_of_broken_scopes_on_own_line", obs.broken_closers);
    ctx.count("small_scopes_seen", obs.small);
}

pub fn run(ctx: &mut Ctx) {
    let max_len = ctx.tier.pick(7usize, 9usize);
    let mut obs = FmtObs { newlines: 0, big: 0, small: 0, broken_closers: 0, indent_checked: false };
    let mut nontrivial = 0u64;
    let mut evals = 0u64;
    let mut indent_checked = 0u64;
    ctx.begin_case("exhaustive enumeration");
    for len in 0..=max_len {
        let total = 9u64.pow(len as u32);
        let mut idx = ctx.shard as u64;
        while idx < total {
            let s = nth_string(len, idx);
            obs.indent_checked = false;
            if let Err((key, what)) = check_format(&s, &mut obs) {
                ctx.violation(key, what, json!({"kind": "string", "input": s}));
            }
            evals += 1;
            if obs.indent_checked {
                indent_checked += 1;
            }
            if s.chars().any(|c| c != 'a' && c != ' ') {
                nontrivial += 1;
            }
            if ctx.res.samples.len() < 2 && len == max_len && idx > total / 2 {
                ctx.sample(json!({"input": s, "output": format_type_description(&s)}));
            }
            idx += ctx.of as u64;
        }
    }
    ctx.res.evaluations += evals;
    ctx.count("enumerated_strings", evals);
    ctx.count("distinct_by_construction", nontrivial);
    ctx.count("enumerated_max_len", if ctx.shard == 0 { max_len as u64 } else { 0 });
    ctx.res.exhaustive = Some(true);
    // random tier
    let n_random = ctx.tier.pick(60_000u64, 2_000_000u64) / ctx.of as u64;
    for i in 0..n_random {
        let case = i * ctx.of as u64 + ctx.shard as u64;
        let mut rng = ctx.rng("random", case);
        let s = random_input(&mut rng);
        obs.indent_checked = false;
        if let Err((key, what)) = check_format(&s, &mut obs) {
            ctx.violation(key, what, json!({"kind": "string", "input": s}));
        }
        if obs.indent_checked {
            indent_checked += 1;
        }
        ctx.case(hash_of(&s), s.chars().any(|c| "{}()<>,".contains(c)));
        if i == 0 {
            ctx.sample(json!({"input": s, "output": format_type_description(&s)}));
        }
    }
    ctx.count("random_strings", n_random);
    // descriptions the crate itself produces
    let n_prog = ctx.tier.pick(300u64, 6000u64) / ctx.of as u64;
    let mut descs = 0u64;
    for i in 0..n_prog {
        let case = i * ctx.of as u64 + ctx.shard as u64;
        let mut rng = ctx.rng("desc", case);
        let prog = crate::prog::ProgGen::new(&mut rng, crate::prog::GenCfg::default()).gen_program();
        let sim = crate::sim::simulate(&prog);
        for id in 0..sim.registry.types.len() as u32 {
            if let Ok(Ok(d)) = guard(|| scale_typegen_description::type_description(id, &sim.registry, false)) {
                obs.indent_checked = false;
                if let Err((key, what)) = check_format(&d, &mut obs) {
                    ctx.violation(key, what, json!({"kind": "string", "input": d}));
                }
                if obs.indent_checked {
                    indent_checked += 1;
                }
                ctx.case(hash_of(&d), true);
                descs += 1;
            }
        }
    }
    ctx.count("crate_descriptions", descs);
    // advisory sanitizer pass (DESIGN.md 7): a small slice of the same workloads under Miri.
    // UB reports in reached dependency code are notes, not verdicts of this property.
    if ctx.tier == Tier::Thorough && ctx.shard == 0 && std::env::var("VERIF_SKIP_MIRI").is_err() {
        ctx.begin_case("miri advisory slice");
        let t0 = std::time::Instant::now();
        let out = std::process::Command::new("cargo")
            .args(["+nightly", "miri", "run", "--offline", "--", "miri-slice", "2", "40"])
            .current_dir(verif_dir().join("harness"))
            .env("MIRIFLAGS", "-Zmiri-disable-isolation")
            .env("CARGO_NET_OFFLINE", "true")
            .output();
        match out {
            Ok(o) => {
                let text = format!("{}\n{}", String::from_utf8_lossy(&o.stdout), String::from_utf8_lossy(&o.stderr));
                let ub = text.matches("Undefined Behavior").count() as u64;
                ctx.count("miri_ub_reports", ub);
                if let Some(line) = text.lines().find(|l| l.starts_with("MIRI-SLICE")) {
                    let num = |key: &str| -> u64 { line.split(key).nth(1).and_then(|r| r.split_whitespace().next()).and_then(|n| n.parse().ok()).unwrap_or(0) };
                    ctx.count("miri_cases", num("ok=") + num("panics="));
                    ctx.count("miri_panics", num("panics="));
                    if num("panics=") > 0 {
                        ctx.note("SANITIZER-NOTE: a call panicked under Miri (the native workloads judge panics)".to_string());
                    }
                } else {
                    ctx.note(format!("SANITIZER-NOTE: the Miri slice did not complete: {}", text.lines().rev().take(3).collect::<Vec<_>>().join(" | ")));
                }
                if ub > 0 {
                    ctx.note(format!("SANITIZER-NOTE: Miri reported undefined behaviour in reached code: {}", text.lines().find(|l| l.contains("Undefined Behavior")).unwrap_or("")));
                }
                ctx.count("miri_seconds", t0.elapsed().as_secs());
            }
            Err(e) => ctx.note(format!("SANITIZER-NOTE: Miri could not be started: {e}")),
        }
    }
    ctx.count("indent_rule_checked", indent_checked);
    record(ctx, &obs);
}

pub fn replay(ctx: &mut Ctx, v: &serde_json::Value) {
    let s = v["input"].as_str().unwrap_or("").to_string();
    let mut obs = FmtObs { newlines: 0, big: 0, small: 0, broken_closers: 0, indent_checked: false };
    if let Err((key, what)) = check_format(&s, &mut obs) {
        ctx.violation(key, what, v.clone());
    }
    ctx.case(hash_of(&s), true);
    ctx.count("indent_rule_checked", obs.indent_checked as u64);
    record(ctx, &obs);
}

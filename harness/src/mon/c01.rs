//! C01 — generated types are wire-faithful to the registry.

use crate::bisim::Bisim;
use crate::cmodel::*;
use crate::ev::*;
use crate::gen::*;
use crate::prog::*;
use crate::reg;
use crate::sdesc::SDesc;
use crate::settingsgen::*;
use crate::sim;
use scale_info::PortableRegistry;
use serde_json::json;
use std::collections::BTreeSet;

pub const META: PropMeta = PropMeta {
    id: "C01",
    level: "exploration",
    rule: "cases = (registry, settings) pairs: registries from random source programs pushed through the executable scale-info model (nested modules, generics, associated types, recursion through Box/Vec/maps, all prelude types, compact, bit sequences), the committed real-scale-info corpus, Polkadot metadata and random reachability-closed sub-registries of it; 3-4 random supported settings per registry (root name, alloc path, docs, compact/bits path spellings, derives, substitutes). For every id of every successfully generated case the type named by resolve_type_path(id) is parsed, looked up in the parsed emitted module, instantiated with its arguments and related to the registry type by pair-coinductive bisimulation (field order/names, variant names/indices, primitives, compact markers, seq/array/tuple structure, bit store/order, Box/Cow transparent); then 4-12 reference encodings of the registry type are decoded by interpreting the code type, must consume all input and re-encode identically. Entries of non-coincidence-free families (and ids reaching them) are skipped and counted. non-trivial = generation succeeded and at least one generated (>=2 segment) type was related; distinct by hash of registry+settings.",
    assumptions: &[
        "coincidence-freedom is decided exactly from the source program for simulator cases and conservatively on the registry for chain metadata",
        "substituted types are opaque (checked by C07)",
        "bit order does not change what round-trips; it is decided by the bisimulation only",
    ],
    required_counters: &[
        "hook[rtp:composite]", "hook[rtp:variant]", "hook[rtp:sequence]", "hook[rtp:array]", "hook[rtp:tuple]",
        "hook[rtp:primitive]", "hook[rtp:compact]", "hook[rtp:bitsequence]", "hook[rtp:param-match]",
        "hook[rtp:cow-unwrap]", "ids_related", "encodings_roundtripped", "artifact_roundtrips_ok", "artifact_cases_compiled", "corpus_registries_match_model",
    ],
    floor: (300, 5000),
    shards: (16, 16),
};

/// ids that must not be judged: members of non-CF families and everything reaching them.
pub fn unjudged_ids(reg: &PortableRegistry, noncf_entries: &BTreeSet<u32>) -> BTreeSet<u32> {
    let fams = reg::families(reg);
    let mut bad: BTreeSet<u32> = BTreeSet::new();
    for ids in fams.values() {
        if ids.iter().any(|i| noncf_entries.contains(i)) {
            bad.extend(ids.iter().copied());
        }
    }
    if bad.is_empty() {
        return bad;
    }
    let mut out = BTreeSet::new();
    for t in &reg.types {
        let r = reg::reachable(reg, &[t.id], true, true);
        if r.iter().any(|i| bad.contains(i)) {
            out.insert(t.id);
        }
    }
    out
}

pub struct CaseStats {
    pub related: u64,
    pub skipped_not_cf: u64,
    pub generated_related: u64,
    pub pairs: u64,
    pub opaque: u64,
}

/// Judge one (registry, settings) case. Returns None when generation did not succeed.
pub fn judge(
    ctx: &mut Ctx,
    reg: &PortableRegistry,
    d: &SDesc,
    unjudged: &BTreeSet<u32>,
    replay: &dyn Fn(Option<u32>) -> serde_json::Value,
    rng: &mut rand_chacha::ChaCha8Rng,
) -> Option<CaseStats> {
    let (gen, events) = generate_model(reg, d);
    tally(&events, &mut ctx.res.counters);
    let gen = match gen {
        Ok(g) => g,
        Err(e) => {
            if e.starts_with("unparsable") {
                ctx.violation("C01:unparsable-module", e, replay(None));
            } else {
                ctx.count(&format!("generation[{e}]"), 1);
            }
            return None;
        }
    };
    ctx.count("generation[ok]", 1);
    let settings = d.build();
    let cl = Classifier::new(d);
    let mut st = CaseStats { related: 0, skipped_not_cf: 0, generated_related: 0, pairs: 0, opaque: 0 };
    for t in &reg.types {
        if unjudged.contains(&t.id) {
            st.skipped_not_cf += 1;
            continue;
        }
        scale_typegen::verif_hooks::start();
        let r = resolve_path(reg, &settings, t.id);
        let ev = scale_typegen::verif_hooks::take();
        tally(&ev, &mut ctx.res.counters);
        let ts = match r {
            Ok(Ok(ts)) => ts,
            Ok(Err(e)) => {
                ctx.violation(
                    format!("C01:resolve-error:{}", err_kind(&e)),
                    format!("generation succeeded but resolve_type_path({}) failed: {e}", t.id),
                    replay(Some(t.id)),
                );
                continue;
            }
            Err(p) => {
                ctx.count(&format!("resolve_panic[{}]", p.signature()), 1);
                continue;
            }
        };
        let ty: syn::Type = match syn::parse2(ts.clone()) {
            Ok(t) => t,
            Err(e) => {
                ctx.violation(
                    "C01:unparsable-type-path",
                    format!("resolve_type_path({}) = `{ts}` is not a type: {e}", t.id),
                    replay(Some(t.id)),
                );
                continue;
            }
        };
        let mut b = Bisim::new(reg, &gen.cm, &cl, d.codec_attrs);
        match b.rel(t.id, &ty) {
            Ok(()) => {
                st.related += 1;
                if reg::is_generated(&t.ty) {
                    st.generated_related += 1;
                }
                codec_tier(ctx, reg, &gen.cm, &cl, t.id, &ty, replay, rng);
            }
            Err(div) => {
                ctx.violation(
                    format!("C01:shape:{}", div.kind),
                    format!(
                        "id {} ({}) named `{}` is not wire-faithful: {}",
                        t.id,
                        t.ty.path.segments.join("::"),
                        nows(&ts.to_string()),
                        div.render()
                    ),
                    replay(Some(t.id)),
                );
            }
        }
        st.pairs += b.pairs as u64;
        st.opaque += b.opaque as u64;
    }
    ctx.count("ids_related", st.related);
    ctx.count("generated_ids_related", st.generated_related);
    ctx.count("skipped_not_cf", st.skipped_not_cf);
    ctx.count("bisim_pairs", st.pairs);
    ctx.count("opaque_substituted_positions", st.opaque);
    Some(st)
}

/// Second opinion on "every valid encoding decodes, is consumed and re-encodes identically":
/// reference encodings of the registry type are run through an interpreter of the code type.
#[allow(clippy::too_many_arguments)]
pub fn codec_tier(
    ctx: &mut Ctx,
    reg: &PortableRegistry,
    cm: &CModel,
    cl: &Classifier,
    id: u32,
    ty: &syn::Type,
    replay: &dyn Fn(Option<u32>) -> serde_json::Value,
    rng: &mut rand_chacha::ChaCha8Rng,
) {
    use crate::codec::*;
    let k = 4;
    for _ in 0..k {
        let mut bytes = Vec::new();
        let mut g = EncGen { reg, rng: &mut *rng, canonical_collections: false, budget: 400, saw_unit_compact: false, steps: 0 };
        if let Err(e) = g.gen(id, 0, &mut bytes) {
            ctx.count(&format!("encoding_not_generated[{}]", e.split(' ').take(3).collect::<Vec<_>>().join(" ")), 1);
            return;
        }
        let unit_compact = g.saw_unit_compact;
        // oracle cross-check: an independent registry-driven decoder must accept and consume it
        let mut cur = &bytes[..];
        let sv = guard(|| scale_value::scale::decode_as_type(&mut cur, id, reg).map(|_| ()));
        match sv {
            Ok(Ok(())) if cur.is_empty() => {}
            _ if unit_compact => ctx.count("scale_value_skipped_unit_compact", 1),
            other => {
                ctx.count("oracle_disagreement_scale_value", 1);
                ctx.note(format!(
                    "reference encoder vs scale-value disagree on id {id}: {:?} left={} bytes={}",
                    other.map(|r| r.map_err(|e| e.to_string())).map_err(|p| p.msg),
                    cur.len(),
                    hex(&bytes)
                ));
                continue;
            }
        }
        let mut cc = CodeCodec { cm, cl, steps: 0 };
        let mut input = &bytes[..];
        let mut out = Vec::new();
        match cc.roundtrip(ty, &mut input, &mut out) {
            Ok(()) => {
                if !input.is_empty() {
                    ctx.violation(
                        "C01:codec:input-not-consumed",
                        format!("id {id}: generated type decodes {} but leaves {} bytes", hex(&bytes), input.len()),
                        replay(Some(id)),
                    );
                } else if out != bytes {
                    ctx.violation(
                        "C01:codec:reencode-differs",
                        format!("id {id}: {} re-encodes to {}", hex(&bytes), hex(&out)),
                        replay(Some(id)),
                    );
                } else {
                    ctx.count("encodings_roundtripped", 1);
                }
            }
            Err(DecErr::Reject(e)) => ctx.violation(
                "C01:codec:rejected",
                format!("id {id}: valid encoding {} is rejected by the generated type: {e}", hex(&bytes)),
                replay(Some(id)),
            ),
            Err(DecErr::Opaque(_)) => {
                ctx.count("encodings_opaque", 1);
                return;
            }
        }
    }
}

pub fn hex(b: &[u8]) -> String {
    let mut s = String::with_capacity(b.len() * 2);
    for (i, x) in b.iter().enumerate() {
        if i >= 64 {
            s.push_str("..");
            break;
        }
        s.push_str(&format!("{x:02x}"));
    }
    s
}

pub fn hex_full(b: &[u8]) -> String {
    let mut s = String::with_capacity(b.len() * 2);
    for x in b {
        s.push_str(&format!("{x:02x}"));
    }
    s
}

/// Inputs of one artifact batch: simulator programs (codec-derive settings) and, optionally,
/// the de-duplicated Polkadot registry.
pub fn artifact_inputs(ctx: &Ctx, label: &str, n_sim: u64, with_polkadot: bool, allow_alias: bool) -> Vec<crate::art::ArtInput> {
    use crate::art::*;
    use rand::Rng;
    let mut inputs = Vec::new();
    for case in 0..n_sim {
        let mut rng = ctx.rng(label, case);
        let mut cfg = GenCfg::default();
        cfg.nested_phantom = case % 4 == 1;
        cfg.allow_alias = allow_alias && case % 5 == 0;
        cfg.allow_char = false;
        cfg.generic_recursion = false;
        cfg.p_assoc = if case % 3 == 0 { 0.5 } else { 0.15 };
        let prog = ProgGen::new(&mut rng, cfg).gen_program();
        let out = sim::simulate(&prog);
        let cf = sim::cf_source(&prog, &out);
        let noncf: BTreeSet<u32> = cf.iter().filter(|(_, r)| r.is_some()).map(|(i, _)| *i).collect();
        let mut r = out.registry.clone();
        if !matches!(guard(|| scale_typegen::utils::ensure_unique_type_paths(&mut r)), Ok(Ok(()))) {
            continue;
        }
        let unjudged = unjudged_ids(&r, &noncf);
        let root = pick_root(&mut rng, &r);
        let d = artifact_sdesc(&root, rng.gen_bool(0.5), rng.gen_bool(0.5), false);
        inputs.push(ArtInput { label: format!("{label}#{case}"), reg: r, d, unjudged, source: Some(prog.render_source("TypeInfo")), has_noncf: !noncf.is_empty() });
    }
    if with_polkadot {
        let mut r = reg::load_polkadot();
        let noncf: BTreeSet<u32> = r.types.iter().filter(|t| reg::non_cf_reason(&r, t.id).is_some()).map(|t| t.id).collect();
        let unjudged = unjudged_ids(&r, &noncf);
        if matches!(guard(|| scale_typegen::utils::ensure_unique_type_paths(&mut r)), Ok(Ok(()))) {
            let d = artifact_sdesc("runtime_types", true, true, true);
            inputs.push(ArtInput { label: "polkadot".into(), reg: r, d, unjudged, source: None, has_noncf: !noncf.is_empty() });
        }
    }
    inputs
}

pub fn sim_case(ctx: &mut Ctx, case: u64, cfg: GenCfg, n_settings: usize) {
    let mut rng = ctx.rng("sim", case);
    let prog = ProgGen::new(&mut rng, cfg).gen_program();
    let out = sim::simulate(&prog);
    let cf = sim::cf_source(&prog, &out);
    let noncf: BTreeSet<u32> = cf.iter().filter(|(_, r)| r.is_some()).map(|(i, _)| *i).collect();
    ctx.count("noncf_instantiations", noncf.len() as u64);
    ctx.count("instantiations", cf.len() as u64);
    let unjudged = unjudged_ids(&out.registry, &noncf);
    for s in 0..n_settings {
        let d = random_sdesc(&mut rng, &out.registry, &SettingsOpts::default());
        ctx.begin_case(&format!("sim case {case} settings {s}"));
        let regj = reg::to_json(&out.registry);
        let dj = serde_json::to_value(&d).unwrap();
        let progsrc = prog.render_source("TypeInfo");
        let replay = |id: Option<u32>| json!({"kind": "registry", "registry": regj, "sdesc": dj, "id": id, "source": progsrc, "noncf": noncf});
        let st = judge(ctx, &out.registry, &d, &unjudged, &replay, &mut rng);
        let h = hash_of(&(reg::fingerprint(&out.registry), serde_json::to_string(&d).unwrap()));
        ctx.case(h, st.as_ref().map(|s| s.generated_related > 0).unwrap_or(false));
        if s == 0 && case < 64 {
            ctx.sample(json!({
                "source_program": progsrc.lines().skip(3).take(12).collect::<Vec<_>>(),
                "registry_entries": out.registry.types.len(),
                "settings": {"root": d.root, "alloc": d.alloc, "docs": d.docs, "substitutes": d.substitutes.len(), "derives": d.global_derives},
                "ids_related": st.as_ref().map(|s| s.related),
            }));
        }
    }
}

pub fn run(ctx: &mut Ctx) {
    // artifact tier: the emitted modules compiled with rustc and the real codec derives
    let batches = ctx.tier.pick(1usize, 8usize);
    if ctx.shard < batches.min(4) {
        let mut b = ctx.shard;
        while b < batches {
            let inputs = artifact_inputs(ctx, &format!("artifact-{}-{b}", ctx.seed), ctx.tier.pick(40, 120), b == 0, false);
            let st = crate::art::run_batch(ctx, "C01", inputs, ctx.shard, ctx.tier.pick(6, 12));
            ctx.count("artifact_batches", 1);
            ctx.count("artifact_roundtrips", st.roundtrips);
            b += 4;
        }
    }
    if std::env::var("VERIF_ARTIFACT_ONLY").is_ok() {
        return; // development aid
    }
    let n = ctx.tier.pick(2500u64, 150_000u64);
    for case in 0..n {
        if !ctx.mine(case) {
            continue;
        }
        let mut cfg = GenCfg::default();
        if case % 7 == 3 {
            cfg.hostile_names = true;
        }
        cfg.compact_unit = case % 4 == 0;
        if case % 11 == 5 {
            cfg.max_depth = 5;
            cfg.max_defs = 12;
        }
        sim_case(ctx, case, cfg, 3);
    }
    // ground truth: registries produced by REAL scale-info (committed corpus; thorough tier
    // additionally compiles a fresh corpus). The model must reproduce each bit for bit modulo
    // whitespace in type names (a mismatch is a harness defect: inconclusive), and the real
    // registries are judged like any other.
    let mut corpus: Vec<crate::corpus::CorpusEntry> = std::fs::read_to_string(verif_dir().join("corpus").join("corpus.json"))
        .ok()
        .and_then(|s| serde_json::from_str(&s).ok())
        .unwrap_or_default();
    if ctx.tier == Tier::Thorough && ctx.shard == 4 {
        let programs: Vec<(Program, bool)> = (0..240u64).map(|k| (crate::corpus::corpus_program(ctx.seed.wrapping_add(1000), k, k % 2 == 0), k % 2 == 0)).collect();
        let b = crate::corpus::build(&programs, "c01");
        match crate::corpus::run(&b, programs.len(), &[]) {
            Ok((regs, _)) => {
                for (k, (p, c)) in programs.into_iter().enumerate() {
                    corpus.push(crate::corpus::CorpusEntry { program: p, codec: c, real_registry: regs[k].clone() });
                }
                ctx.count("fresh_corpus_programs_compiled", regs.len() as u64);
            }
            Err(e) => ctx.inconclusive(format!("fresh corpus could not be built/run: {e}: {}", b.errors.lines().filter(|l| l.starts_with("error")).take(3).collect::<Vec<_>>().join(" | "))),
        }
        crate::corpus::cleanup(&b);
    }
    for (k, entry) in corpus.iter().enumerate() {
        if !ctx.mine(k as u64) && !(ctx.tier == Tier::Thorough && ctx.shard == 4 && k >= 160) {
            continue;
        }
        if let Some(d) = crate::corpus::compare(&entry.program, &entry.real_registry) {
            ctx.inconclusive(format!("scale-info model differs from real scale-info on corpus program {k}: {}", d.chars().take(300).collect::<String>()));
            continue;
        }
        ctx.count("corpus_registries_match_model", 1);
        let Ok(real): Result<PortableRegistry, _> = serde_json::from_value(entry.real_registry.clone()) else { continue };
        let out = sim::simulate(&entry.program);
        let cf = sim::cf_source(&entry.program, &out);
        let noncf: BTreeSet<u32> = cf.iter().filter(|(_, r)| r.is_some()).map(|(i, _)| *i).collect();
        let unjudged = unjudged_ids(&real, &noncf);
        let mut rng = ctx.rng("corpus", k as u64);
        let d = random_sdesc(&mut rng, &real, &SettingsOpts::default());
        ctx.begin_case(&format!("corpus program {k}"));
        let regj = reg::to_json(&real);
        let dj = serde_json::to_value(&d).unwrap();
        let replay = |id: Option<u32>| json!({"kind": "registry", "registry": regj, "sdesc": dj, "id": id, "noncf": noncf, "label": format!("corpus#{k}")});
        let st = judge(ctx, &real, &d, &unjudged, &replay, &mut rng);
        ctx.case(hash_of(&(reg::fingerprint(&real), serde_json::to_string(&d).unwrap())), st.as_ref().map(|s| s.generated_related > 0).unwrap_or(false));
    }
    // two versions of one crate in one registry, de-duplicated first (as every real user does)
    let n_tv = ctx.tier.pick(600u64, 20_000u64);
    for case in 0..n_tv {
        if !ctx.mine(case) {
            continue;
        }
        let mut rng = ctx.rng("two-versions", case);
        let mut cfg = GenCfg::default();
        cfg.max_defs = 4;
        let p1 = ProgGen::new(&mut rng, cfg).gen_program();
        let mut p2 = p1.clone();
        let what = crate::families::edit_program(&mut rng, &mut p2);
        let (p1, p2) = if case % 2 == 1 { (p2, p1) } else { (p1, p2) };
        let o1 = sim::simulate(&p1);
        let o2 = sim::simulate(&p2);
        let merged = crate::families::merge(&o1.registry, &o2.registry);
        let off = o1.registry.types.len() as u32;
        let mut noncf: BTreeSet<u32> = sim::cf_source(&p1, &o1).iter().filter(|(_, r)| r.is_some()).map(|(i, _)| *i).collect();
        noncf.extend(sim::cf_source(&p2, &o2).iter().filter(|(_, r)| r.is_some()).map(|(i, _)| *i + off));
        // everything touched by a coincidence (directly, through its family, or below) is unjudged
        let tainted = reg::tainted_by_coincidence(&merged, &noncf);
        let mut r = merged.clone();
        if !matches!(guard(|| scale_typegen::utils::ensure_unique_type_paths(&mut r)), Ok(Ok(()))) {
            continue;
        }
        let mut bad = noncf.clone();
        bad.extend(tainted.iter().copied());
        let unjudged = unjudged_ids(&merged, &bad);
        let d = random_sdesc(&mut rng, &r, &SettingsOpts::default());
        ctx.begin_case(&format!("two-versions case {case}"));
        let regj = reg::to_json(&r);
        let dj = serde_json::to_value(&d).unwrap();
        let uj = unjudged.clone();
        let replay = |id: Option<u32>| json!({"kind": "registry", "registry": regj, "sdesc": dj, "id": id, "noncf": uj, "label": what});
        let st = judge(ctx, &r, &d, &unjudged, &replay, &mut rng);
        ctx.case(hash_of(&(reg::fingerprint(&r), serde_json::to_string(&d).unwrap())), st.as_ref().map(|s| s.generated_related > 0).unwrap_or(false));
        ctx.count("two_version_cases", 1);
    }
    // real chain metadata and sub-registries
    let polka = reg::load_polkadot();
    let n_sub = ctx.tier.pick(40u64, 400u64);
    for case in 0..=n_sub {
        if !ctx.mine(case) {
            continue;
        }
        let mut rng = ctx.rng("polkadot", case);
        let mut r = polka.clone();
        if case > 0 {
            use rand::Rng;
            let k = rng.gen_range(1..=20);
            let roots: BTreeSet<u32> = (0..k).map(|_| rng.gen_range(0..polka.types.len() as u32)).collect();
            r.retain(|id| roots.contains(&id));
        }
        let noncf: BTreeSet<u32> =
            r.types.iter().filter(|t| reg::non_cf_reason(&r, t.id).is_some()).map(|t| t.id).collect();
        ctx.count("noncf_instantiations", noncf.len() as u64);
        let unjudged = unjudged_ids(&r, &noncf);
        let mut r2 = r.clone();
        let _ = guard(|| scale_typegen::utils::ensure_unique_type_paths(&mut r2));
        let d = random_sdesc(&mut rng, &r2, &SettingsOpts::default());
        ctx.begin_case(&format!("polkadot case {case}"));
        let dj = serde_json::to_value(&d).unwrap();
        let replay = |id: Option<u32>| json!({"kind": "polkadot", "case": case, "sdesc": dj, "id": id});
        let st = judge(ctx, &r2, &d, &unjudged, &replay, &mut rng);
        let h = hash_of(&(reg::fingerprint(&r2), serde_json::to_string(&d).unwrap()));
        ctx.case(h, st.as_ref().map(|s| s.generated_related > 0).unwrap_or(false));
        ctx.count("polkadot_cases", 1);
    }
}

pub fn replay(ctx: &mut Ctx, v: &serde_json::Value) {
    let d: SDesc = serde_json::from_value(v["sdesc"].clone()).expect("sdesc");
    let reg = match v["kind"].as_str() {
        Some("registry") => reg::from_json(&v["registry"]),
        _ => {
            ctx.note("replay of polkadot cases re-runs the monitor's polkadot tier");
            return;
        }
    };
    let noncf: BTreeSet<u32> = serde_json::from_value(v["noncf"].clone()).unwrap_or_default();
    if v["via"].as_str() == Some("artifact") {
        // `noncf` already holds the unjudged ids of an artifact case
        let inp = crate::art::ArtInput { label: "replay".into(), reg: reg.clone(), d: d.clone(), unjudged: noncf, source: None, has_noncf: false };
        crate::art::run_batch(ctx, "C01", vec![inp], 0, 12);
        ctx.case(0, true);
        return;
    }
    let unjudged = unjudged_ids(&reg, &noncf);
    let vv = v.clone();
    let replay = move |_id: Option<u32>| vv.clone();
    let mut rng = ctx.rng("replay", 0);
    judge(ctx, &reg, &d, &unjudged, &replay, &mut rng);
    ctx.case(0, true);
}

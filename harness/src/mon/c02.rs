//! C02 — the generated module is closed, well-formed Rust (interpreted tier; the rustc tier lives
//! in rt.rs and is driven from here in the thorough tier).

use crate::cmodel::*;
use crate::ev::*;
use crate::gen::*;
use crate::prog::*;
use crate::reg;
use crate::sdesc::SDesc;
use crate::settingsgen::*;
use crate::sim;
use scale_info::PortableRegistry;
use serde_json::json;
use std::collections::{BTreeMap, BTreeSet, HashMap};

pub const META: PropMeta = PropMeta {
    id: "C02",
    level: "exploration",
    rule: "cases = (registry after ensure_unique_type_paths, settings with a root name that is not a path segment): simulator programs (all forms: unit/tuple/named structs and enums with and without unused parameters, empty enums with parameters, type aliases hiding a Box, recursion through Box/Vec/maps), associated-type families after de-duplication, Polkadot and sub-registries; every second settings value adds a substitution rule that spells out the source's generics, also on sources with skipped type parameters. Oracles on the emitted tokens: syn parse as a file; module-tree reader (one root module, `use super::root` everywhere, pub items, unique names per module in the type namespace, unique variants); name resolution + arity check of every root-rooted path in every field type and in resolve_type_path(id) of every id; every bare identifier must be a declared generic of its item; every declared generic must be used by a field or a PhantomData marker; inline-cycle detection on closed instantiations (direct fields, Option, Result, tuples, arrays, Range, Compact are inline; Box, Vec and the alloc collections, PhantomData and substituted types are not). Quick tier additionally compiles one batch of generated modules with rustc + parity-scale-codec derives; thorough compiles many. non-trivial = generation succeeded with >= 1 item; distinct by hash of registry+settings.",
    assumptions: &["substituted / unknown absolute paths are opaque leaves", "rustc is used as a runtime environment for the artifact, not as a prover"],
    required_counters: &["paths_resolved", "generics_checked", "cycle_roots_examined", "modules_parsed", "phantom_markers_seen", "rustc_cases_compiled", "rules_with_declared_generics_on_skipped_param_sources"],
    floor: (300, 5000),
    shards: (16, 16),
};

pub struct Closed<'a> {
    pub cm: &'a CModel,
    pub cl: &'a Classifier,
}

/// Check one type expression written inside `item` (None: a closed type from resolve_type_path).
pub fn check_type(
    c: &Closed,
    ty: &syn::Type,
    generics: Option<&[String]>,
    used: &mut BTreeSet<String>,
    problems: &mut Vec<(String, String)>,
    stats: &mut (u64, u64),
) {
    let mut rec = |t: &syn::Type, used: &mut BTreeSet<String>, problems: &mut Vec<(String, String)>, stats: &mut (u64, u64)| {
        check_type(c, t, generics, used, problems, stats)
    };
    match c.cl.classify(ty) {
        CHead::Bad(w) => problems.push(("bad-type".into(), w)),
        CHead::Prim(_) => {}
        CHead::Ident(n) => match generics {
            Some(g) if g.contains(&n) => {
                used.insert(n);
            }
            _ => problems.push(("undeclared-identifier".into(), format!("`{n}` is not a declared generic parameter here"))),
        },
        CHead::Other(_, args) => {
            stats.1 += 1;
            args.iter().for_each(|t| rec(t, used, problems, stats));
        }
        CHead::Vec(t) | CHead::SeqLike(_, t) | CHead::Box(t) | CHead::Compact(t) | CHead::Array(t, _) => rec(&t, used, problems, stats),
        CHead::Tuple(ts) | CHead::Phantom(ts) | CHead::Builtin(_, ts) => ts.iter().for_each(|t| rec(t, used, problems, stats)),
        CHead::Bits(a, b) => {
            rec(&a, used, problems, stats);
            rec(&b, used, problems, stats);
        }
        CHead::Item(path, args) => {
            stats.0 += 1;
            match c.cm.items.get(&path) {
                None => problems.push(("dangling-path".into(), format!("{} resolves to no emitted item", path.join("::")))),
                Some(it) => {
                    if it.generics.len() != args.len() {
                        problems.push((
                            "arity".into(),
                            format!("{} declares {} parameters, applied to {}", path.join("::"), it.generics.len(), args.len()),
                        ));
                    }
                }
            }
            args.iter().for_each(|t| rec(t, used, problems, stats));
        }
    }
}

/// Inline-cycle detection from a closed type. `stack` holds canonical strings of the item
/// instantiations currently being expanded inline.
fn inline_cycle(c: &Closed, ty: &syn::Type, stack: &mut Vec<String>, done: &mut BTreeSet<String>, budget: &mut u32) -> Option<Vec<String>> {
    if *budget == 0 {
        return None;
    }
    *budget -= 1;
    match c.cl.classify(ty) {
        CHead::Item(path, args) => {
            let key = nows(&ts(ty));
            if let Some(pos) = stack.iter().position(|s| *s == key) {
                let mut cyc = stack[pos..].to_vec();
                cyc.push(key);
                return Some(cyc);
            }
            if done.contains(&key) {
                return None;
            }
            let item = c.cm.items.get(&path)?;
            if item.generics.len() != args.len() {
                return None;
            }
            let env = env_of(item, &args);
            stack.push(key.clone());
            for f in item_field_types(item) {
                let t = subst_type(f, &env);
                if let Some(cy) = inline_cycle(c, &t, stack, done, budget) {
                    return Some(cy);
                }
            }
            stack.pop();
            done.insert(key);
            None
        }
        CHead::Tuple(ts) => ts.iter().find_map(|t| inline_cycle(c, t, stack, done, budget)),
        CHead::Array(t, _) | CHead::Compact(t) => inline_cycle(c, &t, stack, done, budget),
        CHead::Builtin(name, args) => match name.as_str() {
            "Option" | "Result" | "Range" | "RangeInclusive" => args.iter().find_map(|t| inline_cycle(c, t, stack, done, budget)),
            _ => None,
        },
        _ => None,
    }
}

pub fn judge(ctx: &mut Ctx, reg: &PortableRegistry, d: &SDesc, alias_hidden_box: bool, replay: &dyn Fn() -> serde_json::Value) -> bool {
    let (gen, _events) = generate_model(reg, d);
    let gen = match gen {
        Ok(g) => g,
        Err(e) => {
            if e.starts_with("unparsable") {
                ctx.violation("C02:unparsable", e, replay());
            } else {
                ctx.count(&format!("generation[{e}]"), 1);
            }
            return false;
        }
    };
    ctx.count("modules_parsed", 1);
    ctx.count("items", gen.cm.items.len() as u64);
    for p in &gen.cm.problems {
        let kind = if p.contains("twice") || p.contains("duplicate") { "duplicate-name" } else { "module-structure" };
        ctx.violation(format!("C02:{kind}"), p.clone(), replay());
    }
    let cl = Classifier::new(d);
    let c = Closed { cm: &gen.cm, cl: &cl };
    let mut stats = (0u64, 0u64);
    for (path, item) in &gen.cm.items {
        let mut used = BTreeSet::new();
        let mut problems = Vec::new();
        let mut saw_marker = false;
        let all_fields: Vec<&FieldM> = match &item.kind {
            ItemKind::Struct(f) => f.fields.iter().collect(),
            ItemKind::Enum(vs) => vs.iter().flat_map(|v| v.fields.fields.iter()).collect(),
        };
        for f in all_fields {
            if matches!(cl.classify(&f.ty), CHead::Phantom(_)) {
                saw_marker = true;
            }
            check_type(&c, &f.ty, Some(&item.generics), &mut used, &mut problems, &mut stats);
        }
        if saw_marker {
            ctx.count("phantom_markers_seen", 1);
        }
        for g in &item.generics {
            ctx.count("generics_checked", 1);
            if !used.contains(g) {
                problems.push(("unused-generic".into(), format!("parameter {g} is used by no field and no marker")));
            }
        }
        let mut dup = BTreeSet::new();
        for g in &item.generics {
            if !dup.insert(g) {
                problems.push(("duplicate-generic".into(), format!("parameter {g} declared twice")));
            }
        }
        // struct forms: named fields need names, tuple fields must not have them (syn guarantees)
        for (k, w) in problems {
            ctx.violation(format!("C02:{k}"), format!("{}: {w}", path.join("::")), replay());
        }
    }
    // resolve_type_path of every id: closed, resolvable, and free of inline cycles
    let settings = d.build();
    let mut done = BTreeSet::new();
    for t in &reg.types {
        let Ok(Ok(tokens)) = resolve_path(reg, &settings, t.id) else {
            ctx.count("resolve_failed", 1);
            continue;
        };
        let Ok(ty) = syn::parse2::<syn::Type>(tokens.clone()) else {
            ctx.violation("C02:unparsable-type-path", format!("resolve_type_path({}) = `{tokens}`", t.id), replay());
            continue;
        };
        let mut used = BTreeSet::new();
        let mut problems = Vec::new();
        check_type(&c, &ty, None, &mut used, &mut problems, &mut stats);
        for (k, w) in problems {
            ctx.violation(format!("C02:type-path:{k}"), format!("resolve_type_path({}) = `{}`: {w}", t.id, nows(&tokens.to_string())), replay());
        }
        if reg::is_generated(&t.ty) {
            ctx.count("cycle_roots_examined", 1);
            let mut budget = 20_000u32;
            if let Some(cyc) = inline_cycle(&c, &ty, &mut Vec::new(), &mut done, &mut budget) {
                let tag = if alias_hidden_box { "alias-hidden-box" } else { "other" };
                ctx.violation(
                    format!("C02:infinite-size:{tag}"),
                    format!("cycle of generated types without heap indirection: {}", cyc.join(" -> ")),
                    replay(),
                );
            }
        }
    }
    ctx.count("paths_resolved", stats.0);
    ctx.count("opaque_paths", stats.1);
    !gen.cm.items.is_empty()
}

fn program_has_alias_box(p: &Program) -> bool {
    p.aliases().values().any(|t| matches!(t, Ty::Box(_)))
}

pub fn sim_case(ctx: &mut Ctx, case: u64, cfg: GenCfg) {
    let mut rng = ctx.rng("sim", case);
    let prog = ProgGen::new(&mut rng, cfg).gen_program();
    let out = sim::simulate(&prog);
    let mut r = out.registry.clone();
    if guard(|| scale_typegen::utils::ensure_unique_type_paths(&mut r)).is_err() {
        ctx.count("dedup_panicked", 1);
        return;
    }
    for s in 0..2 {
        let mut d = random_sdesc(&mut rng, &r, &SettingsOpts::default());
        if s == 1 {
            // substitution rules that spell out the source's generics, also on sources with skipped
            // parameters (C07 does not judge those: which argument "corresponds" is ambiguous there;
            // closure of the output is judged here all the same). The target mentions no source
            // parameter or only the first declared one, so the rule is closed under either reading.
            use rand::seq::SliceRandom;
            use rand::Rng;
            let mut cands: Vec<(String, usize, bool)> = r
                .types
                .iter()
                .filter(|t| reg::is_generated(&t.ty) && t.ty.path.segments[0] != "bitvec" && !t.ty.type_params.is_empty())
                .map(|t| (t.ty.path.segments.join("::"), t.ty.type_params.len(), t.ty.type_params.iter().any(|p| p.ty.is_none())))
                .collect();
            cands.sort();
            cands.dedup();
            // prefer sources with skipped parameters
            let with_skipped: Vec<_> = cands.iter().filter(|c| c.2).cloned().collect();
            let pool = if !with_skipped.is_empty() && rng.gen_bool(0.7) { &with_skipped } else { &cands };
            if let Some((path, arity, skipped)) = pool.choose(&mut rng).cloned() {
                if !d.substitutes.iter().any(|(f, _)| f.split('<').next() == Some(path.as_str())) {
                    let names: Vec<String> = (0..arity).map(|i| format!("P{i}")).collect();
                    let first_has_arg = r.types.iter().filter(|t| t.ty.path.segments.join("::") == path).all(|t| t.ty.type_params.first().map(|p| p.ty.is_some()).unwrap_or(false));
                    let to = if first_has_arg && rng.gen_bool(0.5) { format!("::ext::declared::S<{}>", names[0]) } else { "::ext::declared::S".to_string() };
                    d.substitutes.push((format!("{path}<{}>", names.join(", ")), to));
                    ctx.count("rules_with_declared_generics", 1);
                    if skipped {
                        ctx.count("rules_with_declared_generics_on_skipped_param_sources", 1);
                    }
                }
            }
        }
        ctx.begin_case(&format!("sim case {case} settings {s}"));
        let src = prog.render_source("TypeInfo");
        let regj = reg::to_json(&r);
        let dj = serde_json::to_value(&d).unwrap();
        let alias = program_has_alias_box(&prog);
        let replay = || json!({"kind": "registry", "registry": regj, "sdesc": dj, "source": src, "alias_hidden_box": alias});
        let nt = judge(ctx, &r, &d, alias, &replay);
        ctx.case(hash_of(&(reg::fingerprint(&r), serde_json::to_string(&d).unwrap())), nt);
        if s == 0 && ctx.res.samples.len() < 3 {
            ctx.sample(json!({"source": src.lines().skip(3).take(10).collect::<Vec<_>>(), "root": d.root, "entries": r.types.len()}));
        }
    }
}

pub fn run(ctx: &mut Ctx) {
    // rustc tier: with codec derives configured the module must compile
    let batches = ctx.tier.pick(1usize, 12usize);
    if ctx.shard < batches.min(4) {
        let mut b = ctx.shard;
        while b < batches {
            let inputs = crate::mon::c01::artifact_inputs(ctx, &format!("rustc-{}-{b}", ctx.seed), ctx.tier.pick(60, 150), b == 0, true);
            let st = crate::art::run_batch(ctx, "C02", inputs, ctx.shard, 1);
            ctx.count("rustc_batches", 1);
            ctx.count("rustc_cases_compiled", st.compiled);
            b += 4;
        }
    }
    for (i, prog) in inline_wrapper_gallery().into_iter().enumerate() {
        if !ctx.mine(i as u64) {
            continue;
        }
        let r = sim::simulate(&prog).registry;
        for (k, alloc) in [None, Some("::alloc".to_string())].into_iter().enumerate() {
            let mut d = SDesc::default();
            d.alloc = alloc;
            d.via_builders = k == 1;
            ctx.begin_case(&format!("inline wrapper gallery {i} settings {k}"));
            let regj = reg::to_json(&r);
            let dj = serde_json::to_value(&d).unwrap();
            let src = prog.render_source("TypeInfo");
            let replay = || json!({"kind": "registry", "registry": regj, "sdesc": dj, "source": src, "alias_hidden_box": false});
            let nt = judge(ctx, &r, &d, false, &replay);
            ctx.case(hash_of(&(reg::fingerprint(&r), k)), nt);
            ctx.count("inline_wrapper_gallery_cases", 1);
        }
    }
    let n = ctx.tier.pick(3000u64, 150_000u64);
    for case in 0..n {
        if !ctx.mine(case) {
            continue;
        }
        let mut cfg = GenCfg::default();
        cfg.nested_phantom = case % 4 == 1;
        cfg.compact_unit = case % 4 == 2;
        cfg.allow_alias = case % 3 == 0;
        cfg.p_assoc = if case % 5 == 2 { 0.6 } else { 0.15 };
        cfg.hostile_names = case % 7 == 3;
        sim_case(ctx, case, cfg);
    }
    let polka = reg::load_polkadot();
    let n_sub = ctx.tier.pick(24u64, 300u64);
    for case in 0..=n_sub {
        if !ctx.mine(case) {
            continue;
        }
        use rand::Rng;
        let mut rng = ctx.rng("polkadot", case);
        let mut r = polka.clone();
        if case > 0 {
            let k = rng.gen_range(1..=20);
            let roots: BTreeSet<u32> = (0..k).map(|_| rng.gen_range(0..polka.types.len() as u32)).collect();
            r.retain(|id| roots.contains(&id));
        }
        let _ = guard(|| scale_typegen::utils::ensure_unique_type_paths(&mut r));
        let d = random_sdesc(&mut rng, &r, &SettingsOpts::default());
        ctx.begin_case(&format!("polkadot case {case}"));
        let dj = serde_json::to_value(&d).unwrap();
        let replay = || json!({"kind": "polkadot", "case": case, "sdesc": dj});
        let nt = judge(ctx, &r, &d, false, &replay);
        ctx.case(hash_of(&(reg::fingerprint(&r), serde_json::to_string(&d).unwrap())), nt);
    }
    let _: (BTreeMap<u32, u32>, HashMap<u32, u32>) = Default::default();
}

pub fn replay(ctx: &mut Ctx, v: &serde_json::Value) {
    if v["kind"].as_str() != Some("registry") {
        ctx.note("replay of polkadot cases re-runs the polkadot tier");
        return;
    }
    let reg = reg::from_json(&v["registry"]);
    let d: SDesc = serde_json::from_value(v["sdesc"].clone()).expect("sdesc");
    let alias = v["alias_hidden_box"].as_bool().unwrap_or(false);
    if v["via"].as_str() == Some("rustc") {
        let inp = crate::art::ArtInput {
            label: "replay".into(),
            reg: reg.clone(),
            d: d.clone(),
            unjudged: BTreeSet::new(),
            source: v["source"].as_str().map(|s| s.to_string()),
            has_noncf: v["has_noncf"].as_bool().unwrap_or(false),
        };
        let st = crate::art::run_batch(ctx, "C02", vec![inp], 0, 1);
        ctx.count("rustc_cases_compiled", st.compiled);
        ctx.case(0, true);
        return;
    }
    let vv = v.clone();
    let nt = judge(ctx, &reg, &d, alias, &move || vv.clone());
    ctx.case(0, nt);
}

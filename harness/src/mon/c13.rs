//! C13 — type descriptions are faithful to the registry and always terminate.

use crate::bisim::prim_name;
use crate::ev::*;
use crate::prog::*;
use crate::reg;
use crate::sim;
use scale_info::{form::PortableForm, Field, PortableRegistry, Type, TypeDef};
use scale_typegen_description::type_description;
use serde_json::json;
use std::collections::BTreeSet;

pub const META: PropMeta = PropMeta {
    id: "C13",
    level: "exploration",
    rule: "cases = (registry, id) for every id of: the hand-written gallery of recursive types (see C12); simulator programs with mutual recursion through containers and generics, repeated unnamed types, skipped parameters, bit sequences, unit / one-element tuples, empty structs and enums, Duration/NonZero/PhantomData entries; registries with U256/I256 primitives; all 918 Polkadot ids. Oracle: a registry-driven recursive-descent reader of the (whitespace-stripped) description: at every position the expected registry id is known; a named type is accepted either in full (`struct|enum Name<args>` + every field name / variant name / primitive / array length / tuple arity incl. the one-element-tuple comma / Box, Compact, Vec wrapper, in order) or by its name with generic arguments (`_` for skipped parameters); unnamed types are read structurally; the reader must consume the whole text. Every struct/enum reachable from the id through fields and element types must have been read in full at least once. The formatted description must equal the unformatted one after removing whitespace. Bounded progress (restating 'terminates'), from the transformer hook: the policy is entered at most once per named id and at most (E+1)*(Nn+1) resolve calls are made (E edges, Nn named types of the reachable subgraph). non-trivial = description of a named type whose reachable subgraph has >= 2 named types; distinct by (registry hash, id).",
    assumptions: &["the name form is `Ident<arg,...>` with arguments rendered by name (Vec<..>, [T;n], tuples, primitives, Compact<..>, BitSequence, `_` for skipped)"],
    required_counters: &["descriptions_read", "named_types_expanded", "name_references_read", "cyclic_ids_described", "hook[tf:policy-enter]", "hook[tf:hit-in-progress]", "hook[tf:hit-computed]", "one_tuples_read", "boxes_read", "bit_sequences_read", "type_names_dropped"],
    floor: (3000, 100_000),
    shards: (16, 16),
};

struct Reader<'a> {
    reg: &'a PortableRegistry,
    s: &'a [u8],
    pos: usize,
    expanded: BTreeSet<u32>,
    name_refs: u64,
    one_tuples: u64,
    boxes: u64,
    bits: u64,
    depth: usize,
}

type R = Result<(), String>;

fn name_with_params(reg: &PortableRegistry, t: &Type<PortableForm>, depth: usize) -> String {
    if depth > 64 {
        return "<too deep>".into();
    }
    let of = |id: u32| reg.resolve(id).map(|t| name_with_params(reg, t, depth + 1)).unwrap_or_else(|| "<missing>".into());
    match &t.type_def {
        TypeDef::Sequence(s) => return format!("Vec<{}>", of(s.type_param.id)),
        TypeDef::Array(a) => return format!("[{};{}]", of(a.type_param.id), a.len),
        TypeDef::Tuple(tu) => {
            let inner: Vec<String> = tu.fields.iter().map(|f| of(f.id)).collect();
            return if inner.len() == 1 { format!("({},)", inner[0]) } else { format!("({})", inner.join(",")) };
        }
        TypeDef::Primitive(p) => return if prim_name(p) == "str" { "String".into() } else { prim_name(p).into() },
        TypeDef::Compact(c) => return format!("Compact<{}>", of(c.type_param.id)),
        TypeDef::BitSequence(_) => return "BitSequence".into(),
        _ => {}
    }
    let Some(ident) = t.path.segments.last() else { return "_".into() };
    let params: Vec<String> = t.type_params.iter().map(|p| p.ty.map(|x| of(x.id)).unwrap_or_else(|| "_".into())).collect();
    if params.is_empty() {
        ident.clone()
    } else {
        format!("{ident}<{}>", params.join(","))
    }
}

impl<'a> Reader<'a> {
    fn rest(&self) -> String {
        String::from_utf8_lossy(&self.s[self.pos..self.s.len().min(self.pos + 60)]).to_string()
    }

    fn eat(&mut self, lit: &str) -> R {
        if self.s[self.pos..].starts_with(lit.as_bytes()) {
            self.pos += lit.len();
            Ok(())
        } else {
            Err(format!("expected `{lit}` at offset {}, found `{}`", self.pos, self.rest()))
        }
    }

    fn peek(&self, lit: &str) -> bool {
        self.s[self.pos..].starts_with(lit.as_bytes())
    }

    fn ty(&mut self, id: u32) -> R {
        self.depth += 1;
        if self.depth > 400 {
            return Err("reader nesting exceeds 400".into());
        }
        let r = self.ty_inner(id);
        self.depth -= 1;
        r
    }

    fn ty_inner(&mut self, id: u32) -> R {
        let t = self.reg.resolve(id).ok_or_else(|| format!("registry has no id {id}"))?;
        let named = !t.path.segments.is_empty();
        if named {
            let name = name_with_params(self.reg, t, 0);
            let kw = match &t.type_def {
                TypeDef::Variant(_) => "enum",
                _ => "struct",
            };
            // the name could itself start with the keyword letters; the full form is
            // `<kw><name>` followed by an opening bracket or the unit form `()`
            let full = format!("{kw}{name}");
            if self.peek(&full) && matches!(self.s.get(self.pos + full.len()), Some(b'{') | Some(b'(')) {
                self.pos += full.len();
                self.expanded.insert(id);
                return match &t.type_def {
                    TypeDef::Composite(c) => self.fields(&c.fields),
                    TypeDef::Variant(v) => {
                        self.eat("{")?;
                        for (i, var) in v.variants.iter().enumerate() {
                            if i > 0 {
                                self.eat(",")?;
                            }
                            self.eat(&var.name)?;
                            if !var.fields.is_empty() {
                                self.fields(&var.fields)?;
                            }
                        }
                        self.eat("}")
                    }
                    _ => Err("named type that is neither struct nor enum".into()),
                };
            }
            self.name_refs += 1;
            return self.eat(&name).map_err(|e| format!("named type id {id} neither in full nor by name `{name}`: {e}"));
        }
        match &t.type_def {
            TypeDef::Primitive(p) => self.eat(if prim_name(p) == "str" { "String" } else { prim_name(p) }),
            TypeDef::Sequence(s) => {
                self.eat("Vec<")?;
                self.ty(s.type_param.id)?;
                self.eat(">")
            }
            TypeDef::Array(a) => {
                self.eat("[")?;
                self.ty(a.type_param.id)?;
                self.eat(&format!(";{}]", a.len))
            }
            TypeDef::Tuple(tu) => {
                self.eat("(")?;
                for (i, f) in tu.fields.iter().enumerate() {
                    if i > 0 {
                        self.eat(",")?;
                    }
                    self.ty(f.id)?;
                }
                if tu.fields.len() == 1 {
                    self.one_tuples += 1;
                    self.eat(",")?;
                }
                self.eat(")")
            }
            TypeDef::Compact(c) => {
                self.eat("Compact<")?;
                self.ty(c.type_param.id)?;
                self.eat(">")
            }
            TypeDef::BitSequence(b) => {
                self.bits += 1;
                self.eat("BitSequence(")?;
                self.ty(b.bit_order_type.id)?;
                self.eat(",")?;
                self.ty(b.bit_store_type.id)?;
                self.eat(")")
            }
            TypeDef::Composite(c) => self.fields(&c.fields),
            TypeDef::Variant(_) => Err("unnamed variant type".into()),
        }
    }

    fn fields(&mut self, fs: &[Field<PortableForm>]) -> R {
        if fs.is_empty() {
            return self.eat("()");
        }
        let named = fs[0].name.is_some();
        self.eat(if named { "{" } else { "(" })?;
        for (i, f) in fs.iter().enumerate() {
            if i > 0 {
                self.eat(",")?;
            }
            if let Some(n) = &f.name {
                self.eat(n)?;
                self.eat(":")?;
            }
            let boxed = f.type_name.as_deref().map(|t| t.contains("Box<")).unwrap_or(false);
            if boxed {
                self.boxes += 1;
                self.eat("Box<")?;
            }
            self.ty(f.ty.id)?;
            if boxed {
                self.eat(">")?;
            }
        }
        self.eat(if named { "}" } else { ")" })
    }
}

fn strip_ws(s: &str) -> String {
    s.chars().filter(|c| !c.is_whitespace()).collect()
}

pub fn has_cycle(reg: &PortableRegistry, id: u32) -> bool {
    // is some type reachable from id (through any edge) part of a cycle reaching itself?
    let below = reg::reachable(reg, &[id], false, true);
    for x in below {
        if let Some(t) = reg.resolve(x) {
            let kids = reg::children(t, false, true);
            if reg::reachable(reg, &kids, false, true).contains(&x) {
                return true;
            }
        }
    }
    false
}

pub fn judge_id(ctx: &mut Ctx, r: &PortableRegistry, id: u32, replay: &dyn Fn() -> serde_json::Value) -> bool {
    scale_typegen::verif_hooks::start();
    // logical-step watchdog (bounded progress): a generous multiple of (E+1)*(Nn+1)
    let reach0 = reg::reachable(r, &[id], false, true);
    let e0: u64 = reach0.iter().filter_map(|i| r.resolve(*i)).map(|t| reg::children(t, false, true).len() as u64).sum();
    let n0 = reach0.iter().filter(|i| r.resolve(**i).map(|t| !t.path.segments.is_empty()).unwrap_or(false)).count() as u64;
    scale_typegen::verif_hooks::set_budget(Some(((e0 + 1) * (n0 + 1)).saturating_mul(8).saturating_add(256)));
    let got = guard(|| type_description(id, r, false));
    scale_typegen::verif_hooks::set_budget(None);
    let events = scale_typegen::verif_hooks::take();
    crate::gen::tally(&events, &mut ctx.res.counters);
    let text = match got {
        Err(p) if p.msg.contains("event budget exceeded") => {
            ctx.violation("C13:progress-bound", format!("type_description({id}) did not finish within 8x (E+1)*(Nn+1) resolve steps"), replay());
            return false;
        }
        Err(p) => {
            ctx.violation(format!("C13:panic:{}", p.signature()), format!("type_description({id}) panicked: {}", p.msg), replay());
            return false;
        }
        Ok(Err(e)) => {
            ctx.violation("C13:description-failed", format!("type_description({id}) failed: {e}"), replay());
            return false;
        }
        Ok(Ok(t)) => t,
    };
    // faithful: lockstep reader
    let stripped = strip_ws(&text);
    let mut rd = Reader { reg: r, s: stripped.as_bytes(), pos: 0, expanded: BTreeSet::new(), name_refs: 0, one_tuples: 0, boxes: 0, bits: 0, depth: 0 };
    let res = rd.ty(id).and_then(|_| if rd.pos == stripped.len() { Ok(()) } else { Err(format!("trailing text `{}`", rd.rest())) });
    ctx.count("descriptions_read", 1);
    ctx.count("named_types_expanded", rd.expanded.len() as u64);
    ctx.count("name_references_read", rd.name_refs);
    ctx.count("one_tuples_read", rd.one_tuples);
    ctx.count("boxes_read", rd.boxes);
    ctx.count("bit_sequences_read", rd.bits);
    if let Err(e) = res {
        ctx.violation("C13:not-in-lockstep", format!("description of id {id} cannot be read against the registry: {e}; text `{}`", text.chars().take(300).collect::<String>()), replay());
        return false;
    }
    // every reachable struct/enum written out in full at least once
    let reach = reg::reachable(r, &[id], false, true);
    let named: BTreeSet<u32> = reach.iter().copied().filter(|i| r.resolve(*i).map(|t| !t.path.segments.is_empty()).unwrap_or(false)).collect();
    for n in &named {
        if !rd.expanded.contains(n) {
            // two registry entries may be indistinguishable in the text (same name form and same
            // definition): accept if an entry with identical definition was expanded
            let same = rd.expanded.iter().any(|e| r.resolve(*e).map(|t| Some(t) == r.resolve(*n)).unwrap_or(false));
            if !same {
                ctx.violation(
                    "C13:reachable-type-never-expanded",
                    format!("id {n} ({}) is reachable from {id} through fields/elements but never written out in full", r.resolve(*n).map(|t| t.path.segments.join("::")).unwrap_or_default()),
                    replay(),
                );
            }
        }
    }
    // formatted == unformatted modulo whitespace
    match guard(|| type_description(id, r, true)) {
        Ok(Ok(f)) => {
            if strip_ws(&f) != stripped {
                ctx.violation("C13:formatted-differs", format!("formatted description of id {id} differs from the unformatted one beyond whitespace"), replay());
            }
            ctx.count("formatted_compared", 1);
        }
        Ok(Err(e)) => ctx.violation("C13:formatted-failed", format!("formatted description of {id} failed: {e}"), replay()),
        Err(p) => ctx.violation(format!("C13:formatted-panic:{}", p.signature()), p.msg.clone(), replay()),
    }
    // bounded progress
    let mut enters: std::collections::BTreeMap<u32, u32> = Default::default();
    let mut resolves = 0u64;
    for e in &events {
        match e.tag {
            "tf:policy-enter" => *enters.entry(e.a).or_insert(0) += 1,
            "tf:miss" | "tf:hit-in-progress" | "tf:hit-computed" => resolves += 1,
            _ => {}
        }
    }
    for (tid, n) in &enters {
        if *n > 1 && r.resolve(*tid).map(|t| !t.path.segments.is_empty()).unwrap_or(false) {
            ctx.violation("C13:named-type-expanded-twice", format!("describing id {id}: the policy was entered {n} times for named id {tid}"), replay());
        }
    }
    let edges: u64 = reach.iter().filter_map(|i| r.resolve(*i)).map(|t| reg::children(t, false, true).len() as u64).sum();
    let bound = (edges + 1) * (named.len() as u64 + 1);
    if resolves > bound {
        ctx.violation("C13:progress-bound", format!("describing id {id}: {resolves} resolve calls exceed the bound (E+1)*(Nn+1) = {bound}"), replay());
    }
    if has_cycle(r, id) {
        ctx.count("cyclic_ids_described", 1);
    }
    named.len() >= 2
}

pub fn run(ctx: &mut Ctx) {
    for (i, prog) in recursive_gallery().into_iter().enumerate() {
        if !ctx.mine(i as u64) {
            continue;
        }
        let r = sim::simulate(&prog).registry;
        let regj = reg::to_json(&r);
        let fp = reg::fingerprint(&r);
        for t in 0..r.types.len() as u32 {
            ctx.begin_case(&format!("c13 gallery {i} id {t}"));
            let nt = judge_id(ctx, &r, t, &|| json!({"kind": "c13", "registry": regj, "id": t}));
            ctx.case(hash_of(&(fp, t)), nt);
        }
        ctx.count("gallery_registries", 1);
    }
    let n = ctx.tier.pick(1200u64, 40_000u64);
    for case in 0..n {
        if !ctx.mine(case) {
            continue;
        }
        let mut rng = ctx.rng("c13", case);
        let mut cfg = GenCfg::default();
        cfg.nested_phantom = case % 3 == 0;
        cfg.max_depth = if case % 7 == 0 { 6 } else { 3 };
        let prog = ProgGen::new(&mut rng, cfg).gen_program();
        let out = sim::simulate(&prog);
        let mut r = out.registry;
        if case % 5 == 0 {
            // 256-bit primitives exist in the description crate's input class
            for t in r.types.iter_mut() {
                if let TypeDef::Primitive(p) = &mut t.ty.type_def {
                    if *p == scale_info::TypeDefPrimitive::U128 {
                        *p = scale_info::TypeDefPrimitive::U256;
                    } else if *p == scale_info::TypeDefPrimitive::I128 {
                        *p = scale_info::TypeDefPrimitive::I256;
                    }
                }
            }
        }
        if case % 4 == 2 {
            // recorded type names are optional (hand-written or stripped metadata): drop some
            use rand::Rng;
            let mut dropped = 0u64;
            for t in r.types.iter_mut() {
                let mut strip = |fs: &mut Vec<Field<PortableForm>>| {
                    for f in fs.iter_mut() {
                        if f.type_name.is_some() && rng.gen_bool(0.5) {
                            f.type_name = None;
                            dropped += 1;
                        }
                    }
                };
                match &mut t.ty.type_def {
                    TypeDef::Composite(c) => strip(&mut c.fields),
                    TypeDef::Variant(v) => v.variants.iter_mut().for_each(|v| strip(&mut v.fields)),
                    _ => {}
                }
            }
            ctx.count("type_names_dropped", dropped);
        }
        let regj = reg::to_json(&r);
        let fp = reg::fingerprint(&r);
        for t in 0..r.types.len() as u32 {
            ctx.begin_case(&format!("c13 case {case} id {t}"));
            let nt = judge_id(ctx, &r, t, &|| json!({"kind": "c13", "registry": regj, "id": t}));
            ctx.case(hash_of(&(fp, t)), nt);
        }
        if ctx.res.samples.len() < 2 {
            let id = (r.types.len() / 2) as u32;
            ctx.sample(json!({"id": id, "description": type_description(id, &r, false).unwrap_or_default().chars().take(400).collect::<String>()}));
        }
    }
    let polka = reg::load_polkadot();
    let fp = reg::fingerprint(&polka);
    for t in 0..polka.types.len() as u32 {
        if !ctx.mine(t as u64) {
            continue;
        }
        ctx.begin_case(&format!("c13 polkadot id {t}"));
        let nt = judge_id(ctx, &polka, t, &|| json!({"kind": "c13-polkadot", "id": t}));
        ctx.case(hash_of(&(fp, t)), nt);
        ctx.count("polkadot_ids", 1);
    }
}

pub fn replay(ctx: &mut Ctx, v: &serde_json::Value) {
    let id = v["id"].as_u64().unwrap_or(0) as u32;
    let r = if v["kind"].as_str() == Some("c13-polkadot") { reg::load_polkadot() } else { reg::from_json(&v["registry"]) };
    let vv = v.clone();
    let nt = judge_id(ctx, &r, id, &move || vv.clone());
    ctx.case(0, nt);
}

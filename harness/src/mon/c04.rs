//! C04 — path de-duplication contract: minimal, sufficient, stable, idempotent.

use crate::ev::*;
use crate::families::*;
use crate::gen::*;
use crate::prog::*;
use crate::reg;
use crate::regeq;
use crate::sdesc::SDesc;
use crate::sim;
use scale_info::PortableRegistry;
use serde_json::json;
use std::collections::{BTreeMap, BTreeSet};

pub const META: PropMeta = PropMeta {
    id: "C04",
    level: "exploration",
    rule: "cases = registries with repeated paths: C03's enumerated generic and associated-type families (quick: strided subsample, thorough: complete), random families with sibling names Foo1/Foo2/Foo11 in the same module, 'two versions of one crate' merges, random programs with hostile names, Polkadot. For each: R' = ensure_unique_type_paths(R), R'' = ensure_unique_type_paths(R'). Oracles: frame condition by field-by-field comparison of R and R' (ids, order, definitions, parameters, docs, every path segment but the last); a last segment may change only in a family that the oracle's own shape relation (regeq, pair-coinductive, independent of types_equal) splits into >= 2 classes; generate_types_mod(R') must not return DuplicateTypePath; coincidence-free instantiations of one source definition must end under one path; R'' == R'; new names are old name + n with n = 1..k numbering the shape groups by first appearance. non-trivial = R has a path carried by >= 2 entries; distinct by registry hash.",
    assumptions: &["'differently shaped' is the oracle's relation regeq (same definition up to the root's generic arguments, variant indices included)"],
    required_counters: &["renamed_entries", "families_with_conflict", "idempotence_checked", "generate_after_dedup[ok]"],
    floor: (3000, 100_000),
    shards: (16, 16),
};

pub struct DedupCase<'a> {
    pub reg: &'a PortableRegistry,
    pub noncf: &'a BTreeSet<u32>,
    /// instantiations of definitions that use a parameter under a transparent wrapper (`Box<T>`):
    /// the statement's "stay together" clause and, with it, "same-shaped" do not cover them
    pub wrappers: &'a BTreeSet<u32>,
    /// id -> source definition index (instantiations of user definitions), when known
    pub inst_of: Option<&'a BTreeMap<u32, usize>>,
    pub label: String,
    pub source: Option<String>,
}

fn last(p: &[String]) -> &str {
    p.last().map(|s| s.as_str()).unwrap_or("")
}

pub fn judge(ctx: &mut Ctx, c: &DedupCase) -> bool {
    let r = c.reg;
    let replay = || json!({"kind": "registry", "registry": reg::to_json(r), "noncf": c.noncf, "wrappers": c.wrappers, "label": c.label, "source": c.source});
    let fams = reg::families(r);
    let has_family = fams.values().any(|v| v.len() >= 2);
    let mut r1 = r.clone();
    match guard(|| scale_typegen::utils::ensure_unique_type_paths(&mut r1)) {
        Ok(Ok(())) => {}
        Ok(Err(e)) => {
            ctx.count(&format!("dedup[error:{}]", err_kind(&e)), 1);
            return false;
        }
        Err(p) => {
            ctx.count(&format!("dedup[panic:{}]", p.signature()), 1);
            return false;
        }
    }
    // 1. frame condition
    if r1.types.len() != r.types.len() {
        ctx.violation("C04:frame", format!("number of entries changed; case {}", c.label), replay());
        return has_family;
    }
    let mut renamed: BTreeMap<u32, (String, String)> = BTreeMap::new();
    for (a, b) in r.types.iter().zip(r1.types.iter()) {
        let same_but_last = a.id == b.id
            && a.ty.type_params == b.ty.type_params
            && a.ty.type_def == b.ty.type_def
            && a.ty.docs == b.ty.docs
            && a.ty.path.segments.len() == b.ty.path.segments.len()
            && a.ty.path.segments.iter().rev().skip(1).eq(b.ty.path.segments.iter().rev().skip(1));
        if !same_but_last {
            ctx.violation(
                "C04:frame",
                format!("entry {} changed in more than its last path segment; case {}", a.id, c.label),
                replay(),
            );
            return has_family;
        }
        if a.ty.path.segments != b.ty.path.segments {
            renamed.insert(a.id, (last(&a.ty.path.segments).to_string(), last(&b.ty.path.segments).to_string()));
        }
    }
    ctx.count("renamed_entries", renamed.len() as u64);
    // 2. minimality + 6. naming, per original family
    let tainted = reg::tainted_by_coincidence(r, c.noncf);
    let coincidence_below = |ids: &[u32]| -> bool { reg::coincidence_involved(r, ids, &tainted) };
    let wrapper_below = |ids: &[u32]| -> bool { reg::reachable(r, ids, true, true).iter().any(|i| c.wrappers.contains(i)) };
    for (path, ids) in &fams {
        let any_renamed = ids.iter().any(|i| renamed.contains_key(i));
        if !any_renamed {
            continue;
        }
        ctx.count("families_with_conflict", 1);
        if ids.len() < 2 {
            ctx.violation(
                "C04:renamed-unique-path",
                format!("{} is carried by one entry only but was renamed; case {}", path.join("::"), c.label),
                replay(),
            );
            continue;
        }
        let classes = regeq::classes(r, ids);
        if classes.len() < 2 && wrapper_below(ids) {
            // `Node<T>{ value: Box<T> }`: the recorded type name is `Box<T>`, the parameter cannot be
            // recognised, the instantiations are different shapes for the generator - outside the
            // statement's "stay together" clause
            ctx.count("renamed_wrapper_families_not_judged", 1);
            continue;
        }
        if classes.len() < 2 {
            let tag = if coincidence_below(ids) { ":coincidence" } else { "" };
            ctx.violation(
                format!("C04:renamed-same-shaped{tag}"),
                format!(
                    "all {} entries of {} are same-shaped (one generic definition represents them) but they were renamed; case {}",
                    ids.len(),
                    path.join("::"),
                    c.label
                ),
                replay(),
            );
            continue;
        }
        // naming: groups as the code formed them = by new name; number by first appearance
        let mut group_of_name: BTreeMap<String, usize> = BTreeMap::new();
        let mut next = 1usize;
        let mut ok = true;
        for id in ids {
            match renamed.get(id) {
                Some((old, new)) => {
                    let n = *group_of_name.entry(new.clone()).or_insert_with(|| {
                        let k = next;
                        next += 1;
                        k
                    });
                    if *new != format!("{old}{n}") {
                        ok = false;
                    }
                }
                None => ok = false, // some member of a renamed family kept its name
            }
        }
        if !ok {
            ctx.violation(
                "C04:naming",
                format!(
                    "new names of family {} are not old name + 1..k by first appearance: {:?}; case {}",
                    path.join("::"),
                    ids.iter().map(|i| renamed.get(i).map(|x| x.1.clone())).collect::<Vec<_>>(),
                    c.label
                ),
                replay(),
            );
        }
    }
    // suffix collision predicate: two entries with different paths in R share a path in R'
    let mut origin_of_new: BTreeMap<Vec<String>, BTreeSet<Vec<String>>> = BTreeMap::new();
    for (a, b) in r.types.iter().zip(r1.types.iter()) {
        if reg::is_generated(&a.ty) {
            origin_of_new.entry(b.ty.path.segments.clone()).or_default().insert(a.ty.path.segments.clone());
        }
    }
    let suffix_collision = origin_of_new.values().any(|o| o.len() > 1);
    if suffix_collision {
        ctx.count("suffix_collisions", 1);
    }
    // 6'. the numbering is over SHAPE groups: entries that still share a path afterwards must be one
    // shape by the oracle's own relation (k shapes give the names old+1..old+k, not fewer)
    for (path, ids) in reg::families(&r1) {
        if ids.len() < 2 {
            continue;
        }
        let classes = regeq::classes(&r1, &ids);
        if classes.len() >= 2 {
            let tag = if coincidence_below(&ids) {
                ":coincidence"
            } else if suffix_collision {
                ":suffix-collision"
            } else {
                ""
            };
            ctx.violation(
                format!("C04:shapes-left-under-one-path{tag}"),
                format!("after ensure_unique_type_paths {} entries share {} although they fall into {} shape groups {:?}; case {}", ids.len(), path.join("::"), classes.len(), classes.iter().map(|c| c[0]).collect::<Vec<_>>(), c.label),
                replay(),
            );
        }
    }
    // 3. sufficiency
    let d = SDesc::default();
    let (g, _) = generate_model(&r1, &d);
    match &g {
        Ok(_) => ctx.count("generate_after_dedup[ok]", 1),
        Err(e) if e == "error:DuplicateTypePath" => {
            let tag = if suffix_collision {
                "suffix-collision"
            } else if !tainted.is_empty() {
                "coincidence"
            } else {
                "other"
            };
            ctx.violation(
                format!("C04:still-duplicate:{tag}"),
                format!("generation still fails with DuplicateTypePath after ensure_unique_type_paths; case {}", c.label),
                replay(),
            );
        }
        Err(e) => ctx.count(&format!("generate_after_dedup[{e}]"), 1),
    }
    // 4. coincidence-free instantiations of one definition stay together
    if let Some(inst_of) = c.inst_of {
        let mut by_def: BTreeMap<usize, Vec<u32>> = BTreeMap::new();
        for (id, d) in inst_of {
            by_def.entry(*d).or_default().push(*id);
        }
        for (d, ids) in by_def {
            // the clause speaks about coincidence-free generic definitions: every instantiation
            // present must be coincidence-free, with no coincidence below it either
            if ids.len() < 2 || coincidence_below(&ids) || wrapper_below(&ids) {
                continue;
            }
            let cf: Vec<u32> = ids.clone();
            ctx.count("cf_instantiation_sets", 1);
            let paths: BTreeSet<&Vec<String>> = cf.iter().map(|i| &r1.types[*i as usize].ty.path.segments).collect();
            if paths.len() > 1 {
                // instantiations whose nested types were (legitimately) split end up different
                let classes = regeq::classes(r, &cf);
                if classes.len() == 1 {
                    ctx.violation(
                        "C04:split-instantiations",
                        format!(
                            "coincidence-free instantiations {:?} of source definition #{d} ended under different paths {:?}; case {}",
                            cf, paths, c.label
                        ),
                        replay(),
                    );
                }
            }
        }
    }
    // 5. idempotence
    let mut r2 = r1.clone();
    if let Ok(Ok(())) = guard(|| scale_typegen::utils::ensure_unique_type_paths(&mut r2)) {
        ctx.count("idempotence_checked", 1);
        if r2 != r1 {
            let tag = if suffix_collision {
                "suffix-collision"
            } else if !tainted.is_empty() {
                "coincidence"
            } else {
                "other"
            };
            let changed: Vec<u32> =
                r1.types.iter().zip(r2.types.iter()).filter(|(a, b)| a != b).map(|(a, _)| a.id).take(6).collect();
            ctx.violation(
                format!("C04:not-idempotent:{tag}"),
                format!("a second run of ensure_unique_type_paths changed entries {changed:?}; case {}", c.label),
                replay(),
            );
        }
    }
    has_family
}

fn sim_dedup(ctx: &mut Ctx, prog: &Program, label: String) {
    let out = sim::simulate(prog);
    let noncf: BTreeSet<u32> = sim::coincidences(prog, &out);
    let wrappers: BTreeSet<u32> = sim::wrapper_insts(prog, &out);
    let inst_of: BTreeMap<u32, usize> = out.def_insts.iter().map(|(i, (d, _))| (*i, *d)).collect();
    let src = prog.render_source("TypeInfo");
    let c = DedupCase { reg: &out.registry, noncf: &noncf, wrappers: &wrappers, inst_of: Some(&inst_of), label: label.clone(), source: Some(src.clone()) };
    ctx.begin_case(&label);
    let nt = judge(ctx, &c);
    ctx.case(reg::fingerprint(&out.registry), nt);
    if ctx.res.samples.len() < 3 && nt {
        ctx.sample(json!({"label": label, "source": src.lines().skip(3).collect::<Vec<_>>()}));
    }
}

pub fn run(ctx: &mut Ctx) {
    let total_a = generic1_size();
    let stride_a = ctx.tier.pick(11u64, 1u64);
    let mut i = 0u64;
    while i < total_a {
        if ctx.mine(i / stride_a) {
            let idx = (i + (ctx.seed % stride_a)).min(total_a - 1);
            sim_dedup(ctx, &generic1_case(idx), format!("generic1#{idx}"));
        }
        i += stride_a;
    }
    let total_b = assoc_size();
    let stride_b = ctx.tier.pick(5u64, 1u64);
    let mut i = 0u64;
    while i < total_b {
        if ctx.mine(i / stride_b) {
            let idx = (i + (ctx.seed % stride_b)).min(total_b - 1);
            sim_dedup(ctx, &assoc_case(idx), format!("assoc#{idx}"));
        }
        i += stride_b;
    }
    if stride_a == 1 && stride_b == 1 {
        ctx.res.exhaustive = Some(true);
    }
    let n_c = ctx.tier.pick(5000u64, 150_000u64);
    for case in 0..n_c {
        if !ctx.mine(case) {
            continue;
        }
        let mut rng = ctx.rng("random-family", case);
        let prog = random_family(&mut rng);
        sim_dedup(ctx, &prog, format!("random-family#{case}"));
    }
    let n_h = ctx.tier.pick(1500u64, 40_000u64);
    for case in 0..n_h {
        if !ctx.mine(case) {
            continue;
        }
        let mut rng = ctx.rng("hostile", case);
        let mut cfg = GenCfg::default();
        cfg.hostile_names = true;
        cfg.max_defs = 6;
        cfg.p_assoc = 0.5;
        let prog = ProgGen::new(&mut rng, cfg).gen_program();
        sim_dedup(ctx, &prog, format!("hostile#{case}"));
    }
    // hand-written families and two-versions pairs (see families.rs)
    for (i, (what, prog)) in families_gallery().into_iter().enumerate() {
        if ctx.mine(i as u64) {
            sim_dedup(ctx, &prog, format!("families-gallery#{i}: {what}"));
        }
    }
    for (i, (what, p1, p2)) in versions_gallery().into_iter().enumerate() {
        if !ctx.mine(i as u64) {
            continue;
        }
        for flip in [false, true] {
            let (pa, pb) = if flip { (&p2, &p1) } else { (&p1, &p2) };
            let (o1, o2) = (sim::simulate(pa), sim::simulate(pb));
            let merged = merge(&o1.registry, &o2.registry);
            let off = o1.registry.types.len() as u32;
            let mut noncf: BTreeSet<u32> = sim::coincidences(pa, &o1);
            noncf.extend(sim::coincidences(pb, &o2).iter().map(|i| *i + off));
            let label = format!("two-versions-gallery#{i}{}: {what}", if flip { " (flipped)" } else { "" });
            let c = DedupCase { reg: &merged, noncf: &noncf, wrappers: &Default::default(), inst_of: None, label: label.clone(), source: None };
            ctx.begin_case(&label);
            let nt = judge(ctx, &c);
            ctx.case(reg::fingerprint(&merged), nt);
            ctx.count("gallery_cases", 1);
        }
    }
    let n_d = ctx.tier.pick(1500u64, 40_000u64);
    for case in 0..n_d {
        if !ctx.mine(case) {
            continue;
        }
        let mut rng = ctx.rng("two-versions", case);
        let mut cfg = GenCfg::default();
        cfg.max_defs = 4;
        cfg.hostile_names = case % 3 == 0;
        let p1 = ProgGen::new(&mut rng, cfg).gen_program();
        let mut p2 = p1.clone();
        let what = edit_program(&mut rng, &mut p2);
        // either version may come first in the registry
        let (p1, p2) = if case % 2 == 1 { (p2, p1) } else { (p1, p2) };
        let o1 = sim::simulate(&p1);
        let o2 = sim::simulate(&p2);
        let merged = merge(&o1.registry, &o2.registry);
        let off = o1.registry.types.len() as u32;
        let mut noncf: BTreeSet<u32> =
            sim::coincidences(&p1, &o1);
        noncf.extend(sim::coincidences(&p2, &o2).iter().map(|i| *i + off));
        let mut wrappers: BTreeSet<u32> = sim::wrapper_insts(&p1, &o1);
        wrappers.extend(sim::wrapper_insts(&p2, &o2).iter().map(|i| *i + off));
        let label = format!("two-versions#{case}: {what}");
        let c = DedupCase { reg: &merged, noncf: &noncf, wrappers: &wrappers, inst_of: None, label: label.clone(), source: None };
        ctx.begin_case(&label);
        let nt = judge(ctx, &c);
        ctx.case(reg::fingerprint(&merged), nt);
    }
    if ctx.shard == 0 {
        let polka = reg::load_polkadot();
        let noncf: BTreeSet<u32> =
            polka.types.iter().filter(|t| reg::non_cf_reason(&polka, t.id).is_some()).map(|t| t.id).collect();
        let c = DedupCase { reg: &polka, noncf: &noncf, wrappers: &Default::default(), inst_of: None, label: "polkadot".into(), source: None };
        ctx.begin_case("polkadot");
        let nt = judge(ctx, &c);
        ctx.case(reg::fingerprint(&polka), nt);
        ctx.count("polkadot", 1);
    }
}

pub fn replay(ctx: &mut Ctx, v: &serde_json::Value) {
    let reg = reg::from_json(&v["registry"]);
    let noncf: BTreeSet<u32> = serde_json::from_value(v["noncf"].clone()).unwrap_or_default();
    let wrappers: BTreeSet<u32> = serde_json::from_value(v["wrappers"].clone()).unwrap_or_default();
    let c = DedupCase { reg: &reg, noncf: &noncf, wrappers: &wrappers, inst_of: None, label: v["label"].as_str().unwrap_or("replay").to_string(), source: None };
    let nt = judge(ctx, &c);
    ctx.case(reg::fingerprint(&reg), nt);
}

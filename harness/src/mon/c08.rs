//! C08 — derives and attributes reach exactly the right types.

use crate::cmodel::*;
use crate::ev::*;
use crate::gen::*;
use crate::prog::*;
use crate::reg;
use crate::sdesc::*;
use crate::settingsgen::{generated_paths, pick_root};
use crate::sim;
use rand::seq::SliceRandom;
use rand::Rng;
use scale_info::{PortableRegistry, TypeDefPrimitive};
use serde_json::json;
use std::collections::{BTreeMap, BTreeSet};

pub const META: PropMeta = PropMeta {
    id: "C08",
    level: "exploration",
    rule: "cases = (registry after ensure_unique_type_paths, settings with 0..3 global, 0..5 specific and 0..4 recursive registrations on generated paths — overlapping reach, the same path both specific and recursive —, every registration using derive/attribute names unique to it, CompactAs configured or not, sometimes a substitute). Registries: random programs incl. cyclic graphs, generics, tuples/arrays/compact wrappers, skipped parameters, plus Polkadot sub-registries. Oracle per emitted item: parsed derive and attribute sets must contain global + own-path + every recursive registration whose root reaches the item in the generated-code graph (closure over the item paths mentioned in emitted field types, root included) [must], and must be contained in global + own-path + every recursive registration whose root reaches the item's path in the registry graph (fields, elements, non-skipped parameters; bit-order markers not counted) [may]; CompactAs: required iff configured and the item is a struct with exactly one non-marker field whose emitted type is u8..u128, forbidden otherwise (a single compact-marked unsigned field is don't-care); the same rule is asked of the intermediate representation (create_type_ir) for single-member structs over every primitive kind, the 256-bit ones included (hand-written wrapper gallery, and every third registry with its 128-bit primitives turned into 256-bit ones). non-trivial = >= 1 recursive registration whose must-reach has >= 2 items; distinct by hash of registry+settings.",
    assumptions: &["reachability is judged as a sandwich (must within generated code, may within the registry), so the monitor never demands more than the statement"],
    required_counters: &["items_checked", "recursive_roots", "compact_as_required", "compact_as_forbidden", "ir_compact_as_required", "ir_compact_as_forbidden", "wrapper_gallery_registries", "hook[derives:reach]"],
    floor: (300, 5000),
    shards: (16, 16),
};

fn mentioned_items(cl: &Classifier, t: &syn::Type, out: &mut BTreeSet<Vec<String>>) {
    match cl.classify(t) {
        CHead::Item(p, args) => {
            out.insert(p);
            args.iter().for_each(|a| mentioned_items(cl, a, out));
        }
        CHead::Vec(e) | CHead::SeqLike(_, e) | CHead::Box(e) | CHead::Compact(e) | CHead::Array(e, _) => mentioned_items(cl, &e, out),
        CHead::Tuple(es) | CHead::Phantom(es) | CHead::Builtin(_, es) | CHead::Other(_, es) => es.iter().for_each(|a| mentioned_items(cl, a, out)),
        CHead::Bits(a, b) => {
            mentioned_items(cl, &a, out);
            mentioned_items(cl, &b, out);
        }
        _ => {}
    }
}

pub fn settings_for<R: Rng>(rng: &mut R, r: &PortableRegistry) -> SDesc {
    let mut d = SDesc::default();
    d.root = pick_root(rng, r);
    d.compact_as_path = rng.gen_bool(0.6).then(|| "::zz::CompactAs".to_string());
    let ng = rng.gen_range(0..=3);
    d.global_derives = (0..ng).map(|j| format!("::g::G{j}")).collect();
    if rng.gen_bool(0.5) {
        d.global_attrs = vec!["#[g_attr]".into()];
    }
    let paths: Vec<String> = generated_paths(r).into_iter().filter(|p| p[0] != "bitvec").map(|p| p.join("::")).collect();
    if paths.is_empty() {
        return d;
    }
    let mut k = 0;
    for _ in 0..rng.gen_range(0..=5) {
        let p = paths.choose(rng).unwrap().clone();
        // a registration may consist of derives only, attributes only, or both
        let attr_only = rng.gen_bool(0.25);
        d.specific.push(SpecificDerive { path: p, derives: if attr_only { vec![] } else { vec![format!("::s{k}::D")] }, attrs: if attr_only || rng.gen_bool(0.4) { vec![format!("#[s{k}_attr]")] } else { vec![] }, recursive: false });
        k += 1;
    }
    for _ in 0..rng.gen_range(0..=4) {
        // sometimes the same path as a specific registration
        let p = if !d.specific.is_empty() && rng.gen_bool(0.3) { d.specific.choose(rng).unwrap().path.clone() } else { paths.choose(rng).unwrap().clone() };
        let attr_only = rng.gen_bool(0.3);
        d.specific.push(SpecificDerive { path: p, derives: if attr_only { vec![] } else { vec![format!("::r{k}::D")] }, attrs: if attr_only || rng.gen_bool(0.4) { vec![format!("#[r{k}_attr]")] } else { vec![] }, recursive: true });
        k += 1;
    }
    if rng.gen_bool(0.15) {
        let p = paths.choose(rng).unwrap().clone();
        if !d.specific.iter().any(|s| s.path == p) {
            d.substitutes.push((p, "::ext::Substituted".into()));
        }
    }
    d
}

pub fn judge(ctx: &mut Ctx, r: &PortableRegistry, d: &SDesc, replay: &dyn Fn() -> serde_json::Value) -> bool {
    let (gen, events) = generate_model(r, d);
    tally(&events, &mut ctx.res.counters);
    let gen = match gen {
        Ok(g) => g,
        Err(e) => {
            ctx.count(&format!("generation[{e}]"), 1);
            return false;
        }
    };
    let cl = Classifier::new(d);
    let cm = &gen.cm;
    // generated-code graph
    let mut edges: BTreeMap<Vec<String>, BTreeSet<Vec<String>>> = BTreeMap::new();
    for (p, item) in &cm.items {
        let mut m = BTreeSet::new();
        for t in item_field_types(item) {
            mentioned_items(&cl, t, &mut m);
        }
        edges.insert(p.clone(), m);
    }
    let must_reach = |root: &Vec<String>| -> BTreeSet<Vec<String>> {
        let mut seen = BTreeSet::new();
        let mut stack = vec![root.clone()];
        while let Some(p) = stack.pop() {
            if !cm.items.contains_key(&p) || !seen.insert(p.clone()) {
                continue;
            }
            if let Some(n) = edges.get(&p) {
                stack.extend(n.iter().cloned());
            }
        }
        seen
    };
    // registry graph: from any entry carrying the root path
    let may_reach = |root: &str| -> BTreeSet<String> {
        let roots: Vec<u32> = r.types.iter().filter(|t| t.ty.path.segments.join("::") == root).map(|t| t.id).collect();
        reg::reachable(r, &roots, true, false)
            .into_iter()
            .filter_map(|i| r.resolve(i))
            .filter(|t| !t.path.segments.is_empty())
            .map(|t| t.path.segments.join("::"))
            .collect()
    };
    let recs: Vec<&SpecificDerive> = d.specific.iter().filter(|s| s.recursive).collect();
    let mut rec_must: Vec<BTreeSet<Vec<String>>> = Vec::new();
    let mut rec_may: Vec<BTreeSet<String>> = Vec::new();
    let mut nontrivial = false;
    for s in &recs {
        let mut root = vec![d.root.clone()];
        root.extend(s.path.split("::").map(|x| x.to_string()));
        let m = must_reach(&root);
        if m.len() >= 2 {
            nontrivial = true;
        }
        ctx.count("recursive_roots", 1);
        ctx.count("must_reach_total", m.len() as u64);
        rec_must.push(m);
        rec_may.push(may_reach(&s.path));
    }
    for (p, item) in &cm.items {
        ctx.count("items_checked", 1);
        let rpath = p[1..].join("::");
        let got_d: BTreeSet<String> = item.derives().into_iter().collect();
        let got_a: BTreeSet<String> = item.attrs.iter().filter(|a| !a.starts_with("@gen")).map(|a| nows(a)).collect();
        let mut must_d: BTreeSet<String> = d.global_derives.iter().map(|x| nows(x)).collect();
        let mut must_a: BTreeSet<String> = d.global_attrs.iter().map(|x| nows(x)).collect();
        for s in d.specific.iter().filter(|s| !s.recursive && s.path == rpath) {
            must_d.extend(s.derives.iter().map(|x| nows(x)));
            must_a.extend(s.attrs.iter().map(|x| nows(x)));
        }
        let mut may_d = must_d.clone();
        let mut may_a = must_a.clone();
        for (i, s) in recs.iter().enumerate() {
            if rec_must[i].contains(p) {
                must_d.extend(s.derives.iter().map(|x| nows(x)));
                must_a.extend(s.attrs.iter().map(|x| nows(x)));
            }
            if rec_may[i].contains(&rpath) || rec_must[i].contains(p) {
                may_d.extend(s.derives.iter().map(|x| nows(x)));
                may_a.extend(s.attrs.iter().map(|x| nows(x)));
            }
        }
        // CompactAs
        let ca = d.compact_as_path.as_deref().map(nows);
        if let Some(ca) = &ca {
            let (required, dont_care) = match &item.kind {
                ItemKind::Struct(f) => {
                    let real: Vec<&FieldM> = f.fields.iter().filter(|f| !f.skip && !matches!(cl.classify(&f.ty), CHead::Phantom(_))).collect();
                    if real.len() == 1 {
                        // Box is transparent: the statement speaks about the registry type's field
                        let mut fty = real[0].ty.clone();
                        while let CHead::Box(inner) = cl.classify(&fty) {
                            fty = inner;
                        }
                        let uint = matches!(
                            cl.classify(&fty),
                            CHead::Prim(TypeDefPrimitive::U8 | TypeDefPrimitive::U16 | TypeDefPrimitive::U32 | TypeDefPrimitive::U64 | TypeDefPrimitive::U128)
                        );
                        (uint && !real[0].compact, uint && real[0].compact)
                    } else {
                        (false, false)
                    }
                }
                _ => (false, false),
            };
            if required {
                ctx.count("compact_as_required", 1);
                must_d.insert(ca.clone());
                may_d.insert(ca.clone());
            } else if dont_care {
                ctx.count("compact_as_dont_care", 1);
                may_d.insert(ca.clone());
            } else {
                ctx.count("compact_as_forbidden", 1);
            }
        }
        let missing_d: Vec<&String> = must_d.difference(&got_d).collect();
        let extra_d: Vec<&String> = got_d.difference(&may_d).collect();
        let missing_a: Vec<&String> = must_a.difference(&got_a).collect();
        let extra_a: Vec<&String> = got_a.difference(&may_a).collect();
        let kind_of = |x: &String| -> &'static str {
            if Some(x) == ca.as_ref() {
                "compact-as"
            } else if x.contains("::g::") || x.contains("g_attr") {
                "global"
            } else if x.starts_with("::r") || x.starts_with("#[r") {
                "recursive"
            } else {
                "specific"
            }
        };
        for x in missing_d.iter().chain(missing_a.iter()) {
            ctx.violation(format!("C08:missing:{}", kind_of(x)), format!("{rpath} lacks {x}; has derives {got_d:?} attrs {got_a:?}"), replay());
        }
        for x in extra_d.iter().chain(extra_a.iter()) {
            ctx.violation(format!("C08:unexpected:{}", kind_of(x)), format!("{rpath} carries {x}, which no registration that can reach it provides"), replay());
        }
    }
    nontrivial
}

/// The CompactAs rule on the intermediate representation (`TypeGenerator::create_type_ir`), where a
/// single-member struct over ANY primitive can be asked about - also the 256-bit ones, for which no
/// Rust tokens can be rendered: required iff configured and the member is u8..u128, absent otherwise.
pub fn judge_ir_compact_as(ctx: &mut Ctx, r: &PortableRegistry, d: &SDesc, replay: &dyn Fn() -> serde_json::Value) {
    use scale_info::{TypeDef, TypeDefPrimitive as P};
    let Some(ca) = d.compact_as_path.as_deref().map(nows) else { return };
    let settings = d.build();
    let Ok(Ok(flat)) = guard(|| settings.derives.clone().flatten_recursive_derives(r)) else { return };
    for t in &r.types {
        let TypeDef::Composite(c) = &t.ty.type_def else { continue };
        if !reg::is_generated(&t.ty) || !t.ty.type_params.is_empty() || c.fields.len() != 1 {
            continue;
        }
        let Some(TypeDef::Primitive(p)) = r.resolve(c.fields[0].ty.id).map(|x| &x.type_def) else { continue };
        let want = matches!(p, P::U8 | P::U16 | P::U32 | P::U64 | P::U128);
        let gen = scale_typegen::TypeGenerator::new(r, &settings);
        let Ok(Ok(Some(ir))) = guard(|| gen.create_type_ir(&t.ty, &flat)) else { continue };
        let has = ir.derives.derives().iter().any(|x| nows(&ts(x)) == ca);
        ctx.count(if want { "ir_compact_as_required" } else { "ir_compact_as_forbidden" }, 1);
        if want != has {
            ctx.violation(
                if want { "C08:missing:compact-as(ir)" } else { "C08:unexpected:compact-as(ir)" },
                format!("create_type_ir for {} (one member of primitive type {:?}): CompactAs derive {}", t.ty.path.segments.join("::"), p, if has { "present" } else { "absent" }),
                replay(),
            );
        }
    }
}

/// One single-member wrapper (named and unnamed) per primitive kind.
fn wrapper_gallery() -> Program {
    let mut defs = Vec::new();
    let mut roots = Vec::new();
    for (i, p) in Prim::ALL.iter().enumerate() {
        for named in [false, true] {
            defs.push(Def {
                module: vec!["w".into()],
                name: format!("W{}{}", if named { "n" } else { "u" }, i),
                params: vec![],
                kind: DefKind::Struct(
                    if named { Style::Named } else { Style::Unnamed },
                    vec![FieldDecl { name: named.then(|| "value".to_string()), ty: Ty::Prim(*p), compact: false, skip: false, docs: vec![] }],
                ),
                docs: vec![],
            });
            roots.push(Ty::Def(defs.len() - 1, vec![]));
        }
    }
    Program { krate: "krate".into(), defs, markers: vec![], roots, prefix: vec![] }
}

pub fn run(ctx: &mut Ctx) {
    if ctx.mine(0) {
        let r = sim::simulate(&wrapper_gallery()).registry;
        let mut r256 = r.clone();
        for t in r256.types.iter_mut() {
            if let scale_info::TypeDef::Primitive(p) = &mut t.ty.type_def {
                if *p == scale_info::TypeDefPrimitive::U128 {
                    *p = scale_info::TypeDefPrimitive::U256;
                } else if *p == scale_info::TypeDefPrimitive::I128 {
                    *p = scale_info::TypeDefPrimitive::I256;
                }
            }
        }
        let mut d = SDesc::default();
        d.compact_as_path = Some("::zz::CompactAs".into());
        d.global_derives = vec!["::g::G0".into()];
        let dj = serde_json::to_value(&d).unwrap();
        for (rr, tag) in [(&r, "as-is"), (&r256, "256-bit")] {
            ctx.begin_case(&format!("c08 wrapper gallery {tag}"));
            let rj = reg::to_json(rr);
            judge_ir_compact_as(ctx, rr, &d, &|| json!({"kind": "c08-ir", "registry": rj, "sdesc": dj, "variant": tag}));
            ctx.count("wrapper_gallery_registries", 1);
        }
        // and through the rendered module (the 256-bit variant cannot be rendered)
        let rj = reg::to_json(&r);
        let nt = judge(ctx, &r, &d, &|| json!({"kind": "c08", "registry": rj, "sdesc": dj, "source": "wrapper gallery"}));
        ctx.case(hash_of(&(reg::fingerprint(&r), 0u8)), nt);
    }
    let n = ctx.tier.pick(2500u64, 100_000u64);
    for case in 0..n {
        if !ctx.mine(case) {
            continue;
        }
        let mut rng = ctx.rng("c08", case);
        let mut cfg = GenCfg::default();
        cfg.max_defs = 9;
        cfg.max_depth = 3;
        let prog = ProgGen::new(&mut rng, cfg).gen_program();
        let out = sim::simulate(&prog);
        let mut r = out.registry.clone();
        if !matches!(guard(|| scale_typegen::utils::ensure_unique_type_paths(&mut r)), Ok(Ok(()))) {
            continue;
        }
        let d = settings_for(&mut rng, &r);
        ctx.begin_case(&format!("c08 case {case}"));
        let regj = reg::to_json(&r);
        let dj = serde_json::to_value(&d).unwrap();
        let src = prog.render_source("TypeInfo");
        let nt = judge(ctx, &r, &d, &|| json!({"kind": "c08", "registry": regj, "sdesc": dj, "source": src}));
        ctx.case(hash_of(&(reg::fingerprint(&r), serde_json::to_string(&d).unwrap())), nt);
        if case % 3 == 0 {
            // the same rule asked of the IR, on the registry as it is and with its 128-bit
            // primitives turned into 256-bit ones (no Rust type, hence no tokens, but an IR)
            let mut r256 = r.clone();
            for t in r256.types.iter_mut() {
                if let scale_info::TypeDef::Primitive(p) = &mut t.ty.type_def {
                    if *p == scale_info::TypeDefPrimitive::U128 {
                        *p = scale_info::TypeDefPrimitive::U256;
                    } else if *p == scale_info::TypeDefPrimitive::I128 {
                        *p = scale_info::TypeDefPrimitive::I256;
                    }
                }
            }
            for (rr, tag) in [(&r, "as-is"), (&r256, "256-bit")] {
                let rj = reg::to_json(rr);
                judge_ir_compact_as(ctx, rr, &d, &|| json!({"kind": "c08-ir", "registry": rj, "sdesc": dj, "variant": tag}));
            }
        }
        if ctx.res.samples.len() < 2 && nt {
            ctx.sample(json!({"registrations": d.specific, "global": d.global_derives, "compact_as": d.compact_as_path, "entries": r.types.len()}));
        }
    }
    let polka = reg::load_polkadot();
    let n_p = ctx.tier.pick(32u64, 400u64);
    for case in 0..n_p {
        if !ctx.mine(case) {
            continue;
        }
        let mut rng = ctx.rng("c08-polkadot", case);
        let mut r = polka.clone();
        let k = rng.gen_range(1..=8);
        let roots: BTreeSet<u32> = (0..k).map(|_| rng.gen_range(0..polka.types.len() as u32)).collect();
        r.retain(|id| roots.contains(&id));
        let _ = guard(|| scale_typegen::utils::ensure_unique_type_paths(&mut r));
        let d = settings_for(&mut rng, &r);
        ctx.begin_case(&format!("c08 polkadot {case}"));
        let regj = reg::to_json(&r);
        let dj = serde_json::to_value(&d).unwrap();
        let nt = judge(ctx, &r, &d, &|| json!({"kind": "c08", "registry": regj, "sdesc": dj}));
        ctx.case(hash_of(&(reg::fingerprint(&r), serde_json::to_string(&d).unwrap())), nt);
    }
}

pub fn replay(ctx: &mut Ctx, v: &serde_json::Value) {
    let r = reg::from_json(&v["registry"]);
    let d: SDesc = serde_json::from_value(v["sdesc"].clone()).expect("sdesc");
    let vv = v.clone();
    if v["kind"].as_str() == Some("c08-ir") {
        judge_ir_compact_as(ctx, &r, &d, &move || vv.clone());
        ctx.case(0, true);
        return;
    }
    let nt = judge(ctx, &r, &d, &move || vv.clone());
    ctx.case(0, nt);
}

//! C09 — settings switches are honoured everywhere and are orthogonal.

use crate::bisim::Bisim;
use crate::cmodel::*;
use crate::ev::*;
use crate::gen::*;
use crate::prog::*;
use crate::reg;
use crate::sdesc::*;
use crate::sim;
use proc_macro2::{Delimiter, Group, Ident, Span, TokenStream, TokenTree};
use scale_info::{PortableRegistry, TypeDef};
use serde_json::json;

pub const META: PropMeta = PropMeta {
    id: "C09",
    level: "exploration",
    rule: "cases = registries that contain every heap-allocated prelude type (Vec, String, Box, BTreeMap, BTreeSet, BinaryHeap, VecDeque, Cow) at field, nested and substituted-argument positions, multi-line docs on types and variants, compact fields, bit sequences, explicit variant indices (simulator programs, plus one hand-built 'all heap types' program per shard); each generated under ALL 2^6 combinations of {alloc path std/custom, docs on/off, codec attributes on/off, root name a/b, compact path a/b, decoded-bits path a/b}, followed on the same thread by 4 combinations with THIRD values (a second custom alloc path, third compact / bits paths, a third root name) - a path remembered from an earlier generation must not reappear; and once more with the root named like the first segment of the registry's own paths, which must give the output of any other root name with the name substituted, token for token. Oracles: (i) honoured: with a custom alloc path the identifier `std` occurs nowhere; docs off => no doc attribute, docs on => item and variant docs equal the registry's lines in order; codec off => no generator-emitted codec attribute, codec on => every variant index and compact marker present (bisimulation with index check on every generated id); (ii) orthogonal: a token-tree normaliser removes exactly the tokens each switch governs (doc attributes, codec attributes, the alloc prefix, the root identifier, the compact path, the bits path); all 64 normalised outputs must be identical, which implies that every single-switch edge of the hypercube changes nothing else. non-trivial = registry with >= 1 heap-allocated prelude type and >= 1 doc line; distinct by registry hash.",
    assumptions: &["the custom alloc path, both compact paths, both bits paths and both root names are chosen so that none of their identifiers occurs anywhere else in the output"],
    required_counters: &["combinations_generated", "third_value_combinations", "root_named_like_a_path_segment", "hypercube_edges_implied", "heap_types[Vec]", "heap_types[String]", "heap_types[Box]", "heap_types[BTreeMap]", "heap_types[BTreeSet]", "heap_types[BinaryHeap]", "docs_compared"],
    floor: (200, 4000),
    shards: (16, 16),
};

const ALLOC_B: &str = "::zz_alloc";
const COMPACT: [&str; 2] = ["::zz_codec_a::CompactA", "::zz_codec_b::inner::CompactB"];
const BITS: [&str; 2] = ["::zz_bits_a::BitsA", "::zz_bits_b::BitsB"];
const ROOT: [&str; 2] = ["zz_root_a", "zz_root_b"];

/// Combinations 64..: every switch "on" but with THIRD values for the paths (a second custom alloc
/// path, a third compact / bits path, a third root name), generated after the 64 combinations on
/// the same thread - what a cache keyed by "is the path custom?" instead of by the path would get
/// wrong. The spec treats them like any other combination (same normalised output).
const EXTRA: u32 = 4;
const ALLOC_C: &str = "::zz_other_alloc::reexport";

pub fn combo(k: u32, substitutes: &[(String, String)]) -> SDesc {
    if k >= 64 {
        let mut d = combo(63 - (k & 1) * 6, substitutes);
        let j = k - 64;
        d.alloc = Some(ALLOC_C.into());
        if j >= 1 {
            d.compact_path = Some("::zz_codec_c::CompactC".into());
        }
        if j >= 2 {
            d.bits_path = Some("::zz_bits_c::deep::BitsC".into());
        }
        if j >= 3 {
            d.root = "zz_root_c".into();
        }
        return d;
    }
    let mut d = SDesc::default();
    d.alloc = if k & 1 != 0 { Some(ALLOC_B.into()) } else { None };
    d.docs = k & 2 != 0;
    d.codec_attrs = k & 4 != 0;
    d.root = ROOT[((k >> 3) & 1) as usize].into();
    d.compact_path = Some(COMPACT[((k >> 4) & 1) as usize].into());
    d.bits_path = Some(BITS[((k >> 5) & 1) as usize].into());
    d.global_derives = vec!["Debug".into(), "::zz_derive::Encode".into()];
    d.substitutes.extend(substitutes.iter().cloned());
    // every other combination reaches the generator through the settings' builder methods
    d.via_builders = (k.count_ones() + k / 64) % 2 == 1;
    d
}

fn path_tokens(s: &str) -> Vec<String> {
    let ts: TokenStream = s.parse().unwrap();
    ts.into_iter().map(|t| t.to_string()).collect()
}

struct Norm {
    root: String,
    seqs: Vec<(Vec<String>, &'static str)>,
}

fn normalise(ts: TokenStream, n: &Norm) -> TokenStream {
    let toks: Vec<TokenTree> = ts.into_iter().collect();
    let mut out: Vec<TokenTree> = Vec::new();
    let mut i = 0;
    'outer: while i < toks.len() {
        // attributes: `#` `[ doc = .. ]` / `#` `[ codec ( .. ) ]`
        if let TokenTree::Punct(p) = &toks[i] {
            if p.as_char() == '#' {
                if let Some(TokenTree::Group(g)) = toks.get(i + 1) {
                    if g.delimiter() == Delimiter::Bracket {
                        let first = g.stream().into_iter().next().map(|t| t.to_string()).unwrap_or_default();
                        let body = nows(&g.stream().to_string());
                        let generator_codec = body == "codec(compact)" || body == "codec(skip)" || body.starts_with("codec(index=");
                        if first == "doc" || generator_codec {
                            i += 2;
                            continue;
                        }
                    }
                }
            }
        }
        // path sequences
        for (pat, with) in &n.seqs {
            if i + pat.len() <= toks.len() && pat.iter().enumerate().all(|(k, s)| !matches!(toks[i + k], TokenTree::Group(_)) && toks[i + k].to_string() == *s) {
                out.push(TokenTree::Ident(Ident::new(with, Span::call_site())));
                i += pat.len();
                continue 'outer;
            }
        }
        match &toks[i] {
            TokenTree::Group(g) => {
                let inner = normalise(g.stream(), n);
                out.push(TokenTree::Group(Group::new(g.delimiter(), inner)));
            }
            TokenTree::Ident(id) if *id == n.root => out.push(TokenTree::Ident(Ident::new("ROOT", Span::call_site()))),
            t => out.push(t.clone()),
        }
        i += 1;
    }
    out.into_iter().collect()
}

fn norm_for(d: &SDesc) -> Norm {
    Norm {
        root: d.root.clone(),
        seqs: vec![
            (path_tokens(&d.alloc_str()), "ALLOC"),
            (path_tokens(d.compact_path.as_deref().unwrap()), "COMPACT"),
            (path_tokens(d.bits_path.as_deref().unwrap()), "BITS"),
        ],
    }
}

fn contains_ident(ts: &TokenStream, name: &str) -> bool {
    ts.clone().into_iter().any(|t| match t {
        TokenTree::Ident(i) => i == name,
        TokenTree::Group(g) => contains_ident(&g.stream(), name),
        _ => false,
    })
}

fn heap_census(ctx: &mut Ctx, cm: &CModel, cl: &Classifier) {
    fn walk(ctx: &mut Ctx, cl: &Classifier, t: &syn::Type) {
        match cl.classify(t) {
            CHead::Vec(e) => {
                ctx.count("heap_types[Vec]", 1);
                walk(ctx, cl, &e)
            }
            CHead::Box(e) => {
                ctx.count("heap_types[Box]", 1);
                walk(ctx, cl, &e)
            }
            CHead::Prim(scale_info::TypeDefPrimitive::Str) => ctx.count("heap_types[String]", 1),
            CHead::Builtin(n, args) => {
                if matches!(n.as_str(), "BTreeMap" | "BTreeSet" | "BinaryHeap") {
                    ctx.count(&format!("heap_types[{n}]"), 1);
                }
                args.iter().for_each(|a| walk(ctx, cl, a));
            }
            CHead::SeqLike(n, e) => {
                ctx.count(&format!("heap_types[{n}]"), 1);
                walk(ctx, cl, &e)
            }
            CHead::Array(e, _) | CHead::Compact(e) => walk(ctx, cl, &e),
            CHead::Tuple(es) | CHead::Phantom(es) | CHead::Item(_, es) | CHead::Other(_, es) => es.iter().for_each(|a| walk(ctx, cl, a)),
            CHead::Bits(a, b) => {
                walk(ctx, cl, &a);
                walk(ctx, cl, &b)
            }
            _ => {}
        }
    }
    for item in cm.items.values() {
        for t in item_field_types(item) {
            walk(ctx, cl, t);
        }
    }
}

pub fn judge(ctx: &mut Ctx, r: &PortableRegistry, substitutes: &[(String, String)], replay: &dyn Fn(u32) -> serde_json::Value) -> bool {
    let mut canon: Option<(u32, String)> = None;
    let mut any_ok = false;
    let mut has_docs = false;
    for k in 0..64u32 + EXTRA {
        let d = combo(k, substitutes);
        let settings = d.build();
        let run = generate(r, &settings);
        let tokens = match run.outcome {
            GenOutcome::Ok(ts) => ts,
            GenOutcome::Err(e) => {
                ctx.count(&format!("generation[error:{}]", err_kind(&e)), 1);
                // the outcome itself must not depend on the switches either
                match &canon {
                    Some((k0, c)) if !c.starts_with("error:") => ctx.violation(
                        "C09:outcome-depends-on-switch",
                        format!("combination {k0} generated, combination {k} fails with {e}"),
                        replay(k),
                    ),
                    None => canon = Some((k, format!("error:{}", err_kind(&e)))),
                    _ => {}
                }
                continue;
            }
            GenOutcome::Panic(p) => {
                ctx.count(&format!("generation[panic:{}]", p.signature()), 1);
                continue;
            }
        };
        ctx.count("combinations_generated", 1);
        any_ok = true;
        // (i) honoured
        if d.alloc.is_some() && contains_ident(&tokens, "std") {
            ctx.violation("C09:std-with-custom-alloc", format!("combination {k}: identifier `std` occurs although the alloc path is {}", d.alloc_str()), replay(k));
        }
        if k >= 64 {
            ctx.count("third_value_combinations", 1);
            if contains_ident(&tokens, "zz_alloc") {
                ctx.violation("C09:stale-alloc-path", format!("combination {k}: the alloc path of an EARLIER generation (`{ALLOC_B}`) occurs although this one uses `{ALLOC_C}`"), replay(k));
            }
        }
        let cm = match CModel::parse(tokens.clone()) {
            Ok(cm) => cm,
            Err(e) => {
                ctx.violation("C09:unparsable", e, replay(k));
                continue;
            }
        };
        let cl = Classifier::new(&d);
        if k == 0 {
            heap_census(ctx, &cm, &cl);
        }
        for t in &r.types {
            if !reg::is_generated(&t.ty) || d.is_substituted(&t.ty.path.segments) {
                continue;
            }
            let mut path = vec![d.root.clone()];
            path.extend(t.ty.path.segments.iter().cloned());
            let Some(item) = cm.items.get(&path) else { continue };
            // several registry entries may share the item: the first one with this path made it
            let first = r.types.iter().find(|x| x.ty.path.segments == t.ty.path.segments).map(|x| x.id) == Some(t.id);
            if !first {
                continue;
            }
            if d.docs {
                ctx.count("docs_compared", 1);
                if !t.ty.docs.is_empty() {
                    has_docs = true;
                }
                if item.docs != t.ty.docs {
                    ctx.violation("C09:type-docs-differ", format!("combination {k}: docs of {} are {:?}, registry has {:?}", path.join("::"), item.docs, t.ty.docs), replay(k));
                }
                if let (ItemKind::Enum(vs), TypeDef::Variant(rv)) = (&item.kind, &t.ty.type_def) {
                    for (cv, v) in vs.iter().filter(|v| v.name != "__Ignore").zip(rv.variants.iter()) {
                        if cv.docs != v.docs {
                            ctx.violation("C09:variant-docs-differ", format!("combination {k}: docs of {}::{} are {:?}, registry has {:?}", path.join("::"), cv.name, cv.docs, v.docs), replay(k));
                        }
                        if !v.docs.is_empty() {
                            has_docs = true;
                        }
                    }
                }
            } else {
                let variant_docs = match &item.kind {
                    ItemKind::Enum(vs) => vs.iter().any(|v| !v.docs.is_empty() || v.fields.fields.iter().any(|f| !f.docs.is_empty())),
                    ItemKind::Struct(f) => f.fields.iter().any(|f| !f.docs.is_empty()),
                };
                if !item.docs.is_empty() || variant_docs {
                    ctx.violation("C09:docs-with-docs-off", format!("combination {k}: {} carries a doc attribute", path.join("::")), replay(k));
                }
            }
            let gen_attr = |a: &Vec<String>| a.iter().any(|x| x.starts_with("@gen"));
            let has_codec = match &item.kind {
                ItemKind::Enum(vs) => vs.iter().any(|v| gen_attr(&v.attrs) || v.index.is_some() || v.fields.fields.iter().any(|f| f.compact || f.skip)),
                ItemKind::Struct(f) => f.fields.iter().any(|f| f.compact || f.skip),
            };
            if !d.codec_attrs && has_codec {
                ctx.violation("C09:codec-attribute-with-switch-off", format!("combination {k}: {} carries a generator-emitted codec attribute", path.join("::")), replay(k));
            }
            if d.codec_attrs {
                // every index and compact marker present: bisimulation with index check
                let ty: syn::Type = syn::parse_str(&format!(
                    "{}{}",
                    path.join("::"),
                    if item.generics.is_empty() { String::new() } else { format!("<{}>", item.generics.iter().map(|_| "()").collect::<Vec<_>>().join(",")) }
                ))
                .unwrap();
                if item.generics.is_empty() {
                    let mut b = Bisim::new(r, &cm, &cl, true);
                    if let Err(div) = b.rel(t.id, &ty) {
                        // a compact in the registry that the code does not mark shows as a head
                        // mismatch on the registry's compact
                        let unmarked_compact = div.kind == "head-mismatch"
                            && div.why.contains("is a compact but")
                            && div.trail.len() <= 2
                            && div.trail.last().map(|t| t.starts_with("field ")).unwrap_or(false);
                        if matches!(div.kind, "variant-index" | "compact-marker") || unmarked_compact {
                            ctx.violation(format!("C09:codec-on:{}", div.kind), format!("combination {k}: {}: {}", path.join("::"), div.render()), replay(k));
                        }
                    }
                    ctx.count("codec_on_items_checked", 1);
                }
            }
        }
        // (ii) orthogonal
        let normal = normalise(tokens, &norm_for(&d)).to_string();
        match &canon {
            None => canon = Some((k, normal)),
            Some((k0, c)) => {
                ctx.count("hypercube_edges_implied", 1);
                if *c != normal {
                    let diff_at = c.chars().zip(normal.chars()).position(|(a, b)| a != b).unwrap_or(c.len().min(normal.len()));
                    let ctx_a: String = c.chars().skip(diff_at.saturating_sub(60)).take(160).collect();
                    let ctx_b: String = normal.chars().skip(diff_at.saturating_sub(60)).take(160).collect();
                    let bits = if k >= 64 { 0b111001 } else { k ^ k0 };
                    let names = ["alloc", "docs", "codec", "root", "compact-path", "bits-path"];
                    let which: Vec<&str> = (0..6).filter(|b| bits & (1 << b) != 0).map(|b| names[b]).collect();
                    ctx.violation(
                        format!("C09:not-orthogonal:{}", which.join("+")),
                        format!("combinations {k0} and {k} differ outside the governed tokens: `…{ctx_a}…` vs `…{ctx_b}…`"),
                        replay(k),
                    );
                }
            }
        }
    }
    // "every compact field its marker" also on the other route to an item: a struct built from a
    // member list through create_composite_ir_kind + upcast_composite, with codec attributes on and
    // whatever derives are configured (none at all here)
    {
        let mut bare = combo(63, substitutes);
        bare.global_derives.clear();
        crate::mon::c18::judge_compact_markers(ctx, r, &bare, "C09:codec-on:standalone-compact-marker", "built with codec attributes on and no derives", &|_, _| replay(63));
    }
    // the root name is an opaque identifier: a root spelled like the first segment of the registry's
    // own paths (`krate` for `krate::m::Foo`) must give the output of any other root name with that
    // name substituted, token for token
    if let Some(seg) = r.types.iter().filter(|t| reg::is_generated(&t.ty) && t.ty.path.segments[0] != "bitvec").map(|t| t.ty.path.segments[0].clone()).next() {
        let other = combo(63, substitutes);
        let mut same = other.clone();
        same.root = seg.clone();
        if let (GenOutcome::Ok(a), GenOutcome::Ok(b)) = (generate(r, &same.build()).outcome, generate(r, &other.build()).outcome) {
            fn rename(ts: TokenStream, from: &str, to: &str) -> TokenStream {
                ts.into_iter()
                    .map(|t| match t {
                        TokenTree::Group(g) => TokenTree::Group(Group::new(g.delimiter(), rename(g.stream(), from, to))),
                        TokenTree::Ident(i) if i == from => TokenTree::Ident(Ident::new(to, Span::call_site())),
                        t => t,
                    })
                    .collect()
            }
            ctx.count("root_named_like_a_path_segment", 1);
            let want = rename(b, &other.root, &seg).to_string();
            if a.to_string() != want {
                let got = a.to_string();
                let at = got.chars().zip(want.chars()).position(|(x, y)| x != y).unwrap_or(got.len().min(want.len()));
                ctx.violation(
                    "C09:root-name-not-opaque",
                    format!("root `{seg}` (also the first segment of registry paths) does not give the output of root `{}` renamed: `…{}…` vs `…{}…`", other.root, got.chars().skip(at.saturating_sub(60)).take(140).collect::<String>(), want.chars().skip(at.saturating_sub(60)).take(140).collect::<String>()),
                    replay(63),
                );
            }
        }
    }
    any_ok && has_docs
}

/// One program that has every heap-allocated prelude type at field, nested and argument position.
pub fn all_heap_program() -> Program {
    let f = |n: &str, t: Ty| FieldDecl { name: Some(n.into()), ty: t, compact: false, skip: false, docs: vec!["field".into()] };
    let u = || Ty::Prim(Prim::U8);
    let inner = Def {
        module: vec!["h".into()],
        name: "Inner".into(),
        params: vec![ParamDecl { name: "T".into(), skipped: false, cfg: false, uint: false }],
        kind: DefKind::Struct(Style::Named, vec![f("t", Ty::Param(0)), f("v", Ty::Vec(Ty::Param(0).b()))]),
        docs: vec!["Inner docs".into(), "second line".into()],
    };
    let heap = Def {
        module: vec!["h".into()],
        name: "Heap".into(),
        params: vec![],
        kind: DefKind::Struct(
            Style::Named,
            vec![
                f("a", Ty::Vec(Ty::Str.b())),
                f("b", Ty::Str),
                f("c", Ty::Box(Ty::Vec(Ty::Def(1, vec![]).b()).b())),
                f("d", Ty::BTreeMap(Ty::Str.b(), Ty::Vec(u().b()).b())),
                f("e", Ty::BTreeSet(Ty::Str.b())),
                f("f", Ty::BinaryHeap(u().b())),
                f("g", Ty::VecDeque(Ty::Str.b())),
                f("h", Ty::CowStr),
                f("i", Ty::Option(Ty::Tuple(vec![Ty::Str, Ty::Vec(Ty::Box(u().b()).b())]).b())),
                f("j", Ty::Def(0, vec![Ty::BTreeMap(u().b(), Ty::Str.b())])),
                f("k", Ty::Array(Ty::Vec(Ty::Str.b()).b(), 3)),
                f("l", Ty::Result(Ty::Str.b(), Ty::BTreeSet(u().b()).b())),
                f("m", Ty::Compact(Ty::Prim(Prim::U32).b())),
                f("n", Ty::BitVec(Prim::U8, false)),
            ],
        ),
        docs: vec!["Heap docs".into()],
    };
    let en = Def {
        module: vec!["h".into(), "e".into()],
        name: "En".into(),
        params: vec![],
        kind: DefKind::Enum(vec![
            VariantDecl { name: "A".into(), index: Some(7), style: Style::Unnamed, fields: vec![FieldDecl { name: None, ty: Ty::Box(Ty::Def(1, vec![]).b()), compact: false, skip: false, docs: vec![] }, FieldDecl { name: None, ty: Ty::Prim(Prim::U64), compact: true, skip: false, docs: vec![] }], docs: vec!["variant A".into(), "more".into()] },
            VariantDecl { name: "B".into(), index: Some(2), style: Style::Named, fields: vec![f("s", Ty::Str), f("w", Ty::Def(0, vec![Ty::Vec(Ty::Str.b())]))], docs: vec![] },
            VariantDecl { name: "C".into(), index: Some(200), style: Style::Unit, fields: vec![], docs: vec!["unit".into()] },
        ]),
        docs: vec!["En docs".into()],
    };
    Program { krate: "krate".into(), defs: vec![inner, heap, en], markers: vec![], roots: vec![Ty::Def(1, vec![]), Ty::Def(2, vec![])], prefix: vec![] }
}

pub fn run(ctx: &mut Ctx) {
    // the hand-built program, with and without a substitute whose argument is heap allocated
    {
        let prog = all_heap_program();
        let out = sim::simulate(&prog);
        for (i, subs) in [vec![], vec![("krate::h::Inner".to_string(), "::zz_ext::Wrapped".to_string())]].iter().enumerate() {
            if !ctx.mine(i as u64) {
                continue;
            }
            ctx.begin_case(&format!("all-heap program variant {i}"));
            let regj = reg::to_json(&out.registry);
            let sj = serde_json::to_value(subs).unwrap();
            let nt = judge(ctx, &out.registry, subs, &|k| json!({"kind": "c09", "registry": regj, "substitutes": sj, "combination": k}));
            ctx.case(hash_of(&(reg::fingerprint(&out.registry), i)), nt);
            ctx.sample(json!({"program": prog.render_source("TypeInfo").lines().skip(3).collect::<Vec<_>>(), "substitutes": subs, "combinations": 64}));
        }
    }
    let n = ctx.tier.pick(500u64, 12_000u64);
    for case in 0..n {
        if !ctx.mine(case) {
            continue;
        }
        let mut rng = ctx.rng("c09", case);
        let mut cfg = GenCfg::default();
        cfg.max_insts = 1;
        cfg.max_defs = 6;
        let prog = ProgGen::new(&mut rng, cfg).gen_program();
        let out = sim::simulate(&prog);
        let mut r = out.registry.clone();
        if !matches!(guard(|| scale_typegen::utils::ensure_unique_type_paths(&mut r)), Ok(Ok(()))) {
            continue;
        }
        let subs: Vec<(String, String)> = if case % 3 == 0 {
            crate::settingsgen::generated_paths(&r)
                .into_iter()
                .filter(|p| p[0] != "bitvec")
                .take(1)
                .map(|p| (p.join("::"), "::zz_ext::Subst".to_string()))
                .collect()
        } else {
            vec![]
        };
        ctx.begin_case(&format!("c09 case {case}"));
        let regj = reg::to_json(&r);
        let sj = serde_json::to_value(&subs).unwrap();
        let nt = judge(ctx, &r, &subs, &|k| json!({"kind": "c09", "registry": regj, "substitutes": sj, "combination": k}));
        ctx.case(reg::fingerprint(&r), nt);
    }
}

pub fn replay(ctx: &mut Ctx, v: &serde_json::Value) {
    let r = reg::from_json(&v["registry"]);
    let subs: Vec<(String, String)> = serde_json::from_value(v["substitutes"].clone()).unwrap_or_default();
    let vv = v.clone();
    let nt = judge(ctx, &r, &subs, &move |_| vv.clone());
    ctx.case(0, nt);
}

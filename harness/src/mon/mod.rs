//! One monitor per property.
use crate::ev::{Ctx, PropMeta};

pub mod c01;
pub mod c02;
pub mod c03;
pub mod c04;
pub mod c05;
pub mod c06;
pub mod c07;
pub mod c08;
pub mod c09;
pub mod c10;
pub mod c11;
pub mod c12;
pub mod c13;
pub mod c14;
pub mod c15;
pub mod c16;
pub mod c17;
pub mod c18;

pub struct Monitor {
    pub meta: &'static PropMeta,
    pub run: fn(&mut Ctx),
    pub replay: fn(&mut Ctx, &serde_json::Value),
}

pub fn all() -> Vec<Monitor> {
    vec![
        Monitor { meta: &c01::META, run: c01::run, replay: c01::replay },
        Monitor { meta: &c02::META, run: c02::run, replay: c02::replay },
        Monitor { meta: &c03::META, run: c03::run, replay: c03::replay },
        Monitor { meta: &c04::META, run: c04::run, replay: c04::replay },
        Monitor { meta: &c05::META, run: c05::run, replay: c05::replay },
        Monitor { meta: &c06::META, run: c06::run, replay: c06::replay },
        Monitor { meta: &c07::META, run: c07::run, replay: c07::replay },
        Monitor { meta: &c08::META, run: c08::run, replay: c08::replay },
        Monitor { meta: &c09::META, run: c09::run, replay: c09::replay },
        Monitor { meta: &c10::META, run: c10::run, replay: c10::replay },
        Monitor { meta: &c11::META, run: c11::run, replay: c11::replay },
        Monitor { meta: &c12::META, run: c12::run, replay: c12::replay },
        Monitor { meta: &c13::META, run: c13::run, replay: c13::replay },
        Monitor { meta: &c14::META, run: c14::run, replay: c14::replay },
        Monitor { meta: &c15::META, run: c15::run, replay: c15::replay },
        Monitor { meta: &c16::META, run: c16::run, replay: c16::replay },
        Monitor { meta: &c17::META, run: c17::run, replay: c17::replay },
        Monitor { meta: &c18::META, run: c18::run, replay: c18::replay },
    ]
}

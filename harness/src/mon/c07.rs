//! C07 — type substitution is complete and parameter-correct.

use crate::cmodel::*;
use crate::ev::*;
use crate::gen::*;
use crate::prog::*;
use crate::reg;
use crate::sdesc::*;
use crate::settingsgen::pick_root;
use crate::sim;
use rand::seq::SliceRandom;
use rand::Rng;
use scale_info::PortableRegistry;
use serde_json::json;
use std::collections::{BTreeMap, BTreeSet, HashMap};
use syn::visit_mut::VisitMut;

pub const META: PropMeta = PropMeta {
    id: "C07",
    level: "exploration",
    rule: "cases = (registry after ensure_unique_type_paths, 1..4 substitution rules over generated and prelude paths present in it): rule forms = no generics (pass-through) / same generics / permuted / repeated / nested (::a::B<::c::D<T>, T>, and beneath tuples, arrays and references inside a path argument) / fixed extra arguments / fewer / more target parameters / source generics with a generic-free target and vice versa; use sites at every depth (fields, variants, Vec/array/tuple/Option elements, arguments of other generics, compact inner, Box); rule parameters are named A,B,C / T,U,V or, in 3 of 5 rule sets, like the generator's own parameters (_0,_1,_2 in and out of order), so that a resolved argument can equal the name of another source parameter (simultaneous, not sequential, replacement). Oracle (differential + spec): generate WITHOUT the rules, apply the specification rewrite (syn-level: every occurrence of a source path, at any depth, becomes the target with each source parameter name replaced at any depth by the corresponding rewritten argument; pass-through keeps the arguments in order; all other tokens unchanged) to every field type and to resolve_type_path(id) of every id, and compare with the generation WITH the rules, item by item and field by field (PhantomData markers excluded: a rule that drops an argument legitimately changes which parameters are unused); items of substituted paths must be absent; no path root::<source> may survive anywhere. Sources with skipped parameters are excluded from rules with declared generics and counted. non-trivial = at least one occurrence rewritten with a rule that declares generics; distinct by hash of registry+rules. The rules reach the settings by one of five histories chosen from the rule set: one insert per rule / ONE extend / insert_if_not_exists / the longest source path by insert and then one extend with the others / inserts followed by an empty extend.",
    assumptions: &["'corresponding argument' = i-th declared source parameter <-> i-th resolved argument, for sources without skipped parameters"],
    required_counters: &["occurrences_rewritten", "registered_via[extend]", "registered_via[insert+extend]", "registered_via[insert+empty-extend]", "rule_sets_with_generated_style_param_names", "rules[pass-through]", "rules[permuted]", "rules[nested]", "rules[repeated]", "rules[fewer]", "rules[more]", "rules[nested-non-type-args]", "rules[declares-fewer-than-recorded]", "rules[declares-more-than-recorded]", "hook[rtp:substituted]", "type_paths_compared", "fields_compared"],
    floor: (300, 5000),
    shards: (16, 16),
};

#[derive(Clone, Debug, serde::Serialize, serde::Deserialize)]
pub struct Rule {
    pub from: String,
    pub to: String,
    pub form: String,
}

const PRELUDE: [(&str, &str); 6] = [
    ("Option", "::core::option::Option"),
    ("Result", "::core::result::Result"),
    ("Range", "::core::ops::Range"),
    ("RangeInclusive", "::core::ops::RangeInclusive"),
    ("BTreeMap", "<alloc>::collections::BTreeMap"),
    ("BTreeSet", "<alloc>::collections::BTreeSet"),
];

struct ParsedRule {
    key: Vec<String>,
    src_params: Vec<String>,
    target: syn::Path,
    pass_through: bool,
}

fn parse_rule(r: &Rule) -> ParsedRule {
    let from = p(&r.from);
    let target = p(&r.to);
    let src_params: Vec<String> = match &from.segments.last().unwrap().arguments {
        syn::PathArguments::AngleBracketed(a) => a.args.iter().map(|g| nows(&ts(g))).collect(),
        _ => vec![],
    };
    let target_has_args = !matches!(target.segments.last().unwrap().arguments, syn::PathArguments::None);
    ParsedRule {
        key: from.segments.iter().map(|s| s.ident.to_string()).collect(),
        pass_through: src_params.is_empty() && !target_has_args,
        src_params,
        target,
    }
}

/// Replace single-identifier types named like a source parameter, at ANY depth of the target.
struct ReplaceParams<'a> {
    map: &'a HashMap<String, syn::Type>,
    /// descend only through path types (models the behaviour recorded as a known finding)
    paths_only: bool,
}

impl VisitMut for ReplaceParams<'_> {
    fn visit_type_mut(&mut self, t: &mut syn::Type) {
        if let syn::Type::Path(tp) = t {
            if tp.qself.is_none() && tp.path.leading_colon.is_none() && tp.path.segments.len() == 1 && tp.path.segments[0].arguments.is_empty() {
                if let Some(rep) = self.map.get(&tp.path.segments[0].ident.to_string()) {
                    *t = rep.clone();
                    return;
                }
            }
        }
        if self.paths_only && !matches!(t, syn::Type::Path(_)) {
            return;
        }
        syn::visit_mut::visit_type_mut(self, t);
    }
}

struct Spec<'a> {
    root: &'a str,
    alloc: String,
    rules: &'a [ParsedRule],
    paths_only: bool,
    rewritten: u64,
    max_depth: u64,
}

impl Spec<'_> {
    fn registry_key(&self, path: &syn::Path) -> Option<Vec<String>> {
        let segs: Vec<String> = path.segments.iter().map(|s| s.ident.to_string()).collect();
        if path.leading_colon.is_none() && segs.first().map(|s| s.as_str()) == Some(self.root) {
            return Some(segs[1..].to_vec());
        }
        let spelled = nows(&ts(&syn::Path { leading_colon: path.leading_colon, segments: path.segments.iter().map(|s| syn::PathSegment::from(s.ident.clone())).collect() }));
        for (name, emitted) in PRELUDE {
            if spelled == nows(&emitted.replace("<alloc>", &self.alloc)) {
                return Some(vec![name.to_string()]);
            }
        }
        None
    }

    /// The specification rewrite of one type expression.
    fn rewrite(&mut self, t: &syn::Type, depth: u64) -> syn::Type {
        let mut t = t.clone();
        self.rewrite_in_place(&mut t, depth);
        t
    }

    fn rewrite_in_place(&mut self, t: &mut syn::Type, depth: u64) {
        // children first (arguments are themselves resolved types)
        match t {
            syn::Type::Path(tp) => {
                for seg in tp.path.segments.iter_mut() {
                    if let syn::PathArguments::AngleBracketed(a) = &mut seg.arguments {
                        for g in a.args.iter_mut() {
                            if let syn::GenericArgument::Type(inner) = g {
                                self.rewrite_in_place(inner, depth + 1);
                            }
                        }
                    }
                }
                let Some(key) = self.registry_key(&tp.path) else { return };
                let Some(rule) = self.rules.iter().find(|r| r.key == key) else { return };
                self.rewritten += 1;
                self.max_depth = self.max_depth.max(depth);
                let args: Vec<syn::Type> = last_args(&tp.path).unwrap_or_default();
                let mut target = rule.target.clone();
                if rule.pass_through {
                    if !args.is_empty() {
                        let a = &args;
                        let last = target.segments.last_mut().unwrap();
                        last.arguments = syn::PathArguments::AngleBracketed(syn::parse_quote!(< #( #a ),* >));
                    }
                } else {
                    let map: HashMap<String, syn::Type> =
                        rule.src_params.iter().cloned().zip(args.iter().cloned()).collect();
                    let mut as_type = syn::Type::Path(syn::TypePath { qself: None, path: target.clone() });
                    // the target path itself is never a bare parameter; visit its arguments
                    let mut v = ReplaceParams { map: &map, paths_only: self.paths_only };
                    if let syn::Type::Path(tp2) = &mut as_type {
                        for seg in tp2.path.segments.iter_mut() {
                            if let syn::PathArguments::AngleBracketed(a) = &mut seg.arguments {
                                for g in a.args.iter_mut() {
                                    if let syn::GenericArgument::Type(inner) = g {
                                        v.visit_type_mut(inner);
                                    }
                                }
                            }
                        }
                        target = tp2.path.clone();
                    }
                }
                *t = syn::Type::Path(syn::TypePath { qself: None, path: target });
            }
            syn::Type::Tuple(tu) => tu.elems.iter_mut().for_each(|e| self.rewrite_in_place(e, depth + 1)),
            syn::Type::Array(a) => self.rewrite_in_place(&mut a.elem, depth + 1),
            syn::Type::Paren(p) => self.rewrite_in_place(&mut p.elem, depth),
            syn::Type::Reference(r) => self.rewrite_in_place(&mut r.elem, depth + 1),
            _ => {}
        }
    }
}

/// Candidate rule sources: generated and supported prelude paths without skipped parameters
/// (arity = number of recorded parameters).
fn sources(r: &PortableRegistry) -> (Vec<(String, usize)>, u64) {
    let mut out: BTreeMap<String, usize> = BTreeMap::new();
    let mut skipped = 0u64;
    let mut bad: BTreeSet<String> = BTreeSet::new();
    for t in &r.types {
        let segs = &t.ty.path.segments;
        if segs.is_empty() || segs[0] == "bitvec" {
            continue;
        }
        if segs.len() == 1 && !PRELUDE.iter().any(|(n, _)| *n == segs[0]) {
            continue;
        }
        let key = segs.join("::");
        if t.ty.type_params.iter().any(|p| p.ty.is_none()) {
            bad.insert(key.clone());
            skipped += 1;
        }
        out.insert(key, t.ty.type_params.len());
    }
    (out.into_iter().filter(|(k, _)| !bad.contains(k)).collect(), skipped)
}

fn self_chance<R: Rng>(rng: &mut R) -> bool {
    rng.gen_bool(0.5)
}

pub fn gen_rules<R: Rng>(rng: &mut R, r: &PortableRegistry, ctx: &mut Ctx) -> Vec<Rule> {
    let (srcs, skipped) = sources(r);
    ctx.count("sources_with_skipped_params_excluded", skipped);
    if srcs.is_empty() {
        return vec![];
    }
    // parameter names of the rule: ordinary ones, or the very identifiers the generator gives to the
    // parameters of generated items (`_0, _1, ..`, as when a rule is copied from generated code), in
    // and out of order - so that an argument (`_1`) can equal the NAME of another source parameter
    let schemes: [[&str; 3]; 5] = [["A", "B", "C"], ["T", "U", "V"], ["_0", "_1", "_2"], ["_1", "_0", "_2"], ["_2", "_0", "_1"]];
    let names = schemes[rng.gen_range(0..schemes.len())];
    if names[0].starts_with('_') {
        ctx.count("rule_sets_with_generated_style_param_names", 1);
    }
    let mut used = BTreeSet::new();
    let mut rules = Vec::new();
    for i in 0..rng.gen_range(1..=4) {
        let (path, arity) = srcs.choose(rng).unwrap().clone();
        if !used.insert(path.clone()) {
            continue;
        }
        let sp: Vec<&str> = names[..arity.min(3)].to_vec();
        let src_generic = if sp.is_empty() { path.clone() } else { format!("{path}<{}>", sp.join(", ")) };
        let y = format!("::ext{i}::Y{i}");
        let (from, to, form) = match (rng.gen_range(0..13), arity) {
            (0 | 1, _) => (path.clone(), y.clone(), "pass-through"),
            (2, a) if a >= 1 => (src_generic.clone(), format!("{y}<{}>", sp.join(", ")), "same"),
            (3, a) if a >= 2 => {
                let mut rev = sp.clone();
                rev.reverse();
                (src_generic.clone(), format!("{y}<{}>", rev.join(", ")), "permuted")
            }
            (4, a) if a >= 1 => (src_generic.clone(), format!("{y}<{}, {}>", sp[0], sp[0]), "repeated"),
            (5, a) if a >= 1 => {
                if self_chance(rng) {
                    (src_generic.clone(), format!("{y}<::z::W<{}>, ::z::V<::z::W<{}>>>", sp[0], sp[sp.len() - 1]), "nested")
                } else {
                    // unqualified single-segment generic types in the target
                    (src_generic.clone(), format!("{y}<Option<{}>, Vec<(u8, Box<{}>)>, {}>", sp[0], sp[sp.len() - 1], sp[0]), "nested")
                }
            }
            (6, a) if a >= 1 => (src_generic.clone(), format!("{y}<{}, u8, ::fixed::Extra>", sp[0]), "fixed-extra"),
            (7, a) if a >= 2 => (src_generic.clone(), format!("{y}<{}>", sp[1]), "fewer"),
            (8, a) if a >= 1 => (src_generic.clone(), format!("{y}<{}, Unrelated>", sp.join(", ")), "more"),
            (9, a) if a >= 1 => {
                if self_chance(rng) {
                    (src_generic.clone(), format!("{y}<::z::W<({}, u8)>, ::z::V<[{}; 4]>, ::z::R<&'static {}>>", sp[0], sp[sp.len() - 1], sp[0]), "nested-non-path")
                } else if self_chance(rng) {
                    // slices, raw pointers, parenthesised types
                    (src_generic.clone(), format!("{y}<::z::S<[{}]>, ::z::P<*const {}>, ::z::Q<({})>>", sp[0], sp[sp.len() - 1], sp[0]), "nested-non-path")
                } else {
                    // lifetime and const arguments before / between the type arguments of a nested path
                    (src_generic.clone(), format!("{y}<::z::R<'static, {}>, ::z::N<4, {}>, ::z::M<{}, 7, ::z::O<{}>>>", sp[0], sp[sp.len() - 1], sp[0], sp[sp.len() - 1]), "nested-non-type-args")
                }
            }
            (10, a) if a >= 2 => {
                // the rule spells out only the first parameter of a type that records more
                (format!("{path}<{}>", sp[0]), format!("{y}<{}>", sp[0]), "declares-fewer-than-recorded")
            }
            (11, a) if a >= 1 && a < 3 => {
                // ... or one more than the type records (the extra name has no argument and stays as it is)
                let mut all: Vec<&str> = sp.clone();
                all.push("Zz");
                (format!("{path}<{}>", all.join(", ")), format!("{y}<{}>", all.join(", ")), "declares-more-than-recorded")
            }
            (_, a) if a >= 1 => (src_generic.clone(), y.clone(), "generics-to-none"),
            _ => (path.clone(), format!("{y}<u8>"), "none-to-generics"),
        };
        ctx.count(&format!("rules[{form}]"), 1);
        rules.push(Rule { from, to, form: form.to_string() });
    }
    rules
}

fn base_sdesc<R: Rng>(rng: &mut R, r: &PortableRegistry) -> SDesc {
    let mut d = SDesc::default();
    d.root = pick_root(rng, r);
    d.alloc = [None, Some("::alloc".to_string())].choose(rng).unwrap().clone();
    d.via_builders = rng.gen_bool(0.5);
    d
}

fn fields_of(item: &Item) -> Vec<(String, &FieldM)> {
    match &item.kind {
        ItemKind::Struct(f) => f.fields.iter().enumerate().map(|(i, f)| (f.name.clone().unwrap_or(i.to_string()), f)).collect(),
        ItemKind::Enum(vs) => vs
            .iter()
            .flat_map(|v| v.fields.fields.iter().enumerate().map(move |(i, f)| (format!("{}.{}", v.name, f.name.clone().unwrap_or(i.to_string())), f)))
            .collect(),
    }
}

pub fn judge(ctx: &mut Ctx, r: &PortableRegistry, base: &SDesc, rules: &[Rule], replay: &dyn Fn() -> serde_json::Value) -> bool {
    let mut with = base.clone();
    for rule in rules {
        with.substitutes.push((rule.from.clone(), rule.to.clone()));
    }
    // the rules reach the settings through one `insert` each, ONE `extend` call, or
    // `insert_if_not_exists` (chosen from the rule set, so that a replay repeats it)
    with.register_via = (hash_of(&rules.iter().map(|r| r.from.clone()).collect::<Vec<_>>()) % 5) as u8;
    ctx.count(&format!("registered_via[{}]", ["insert", "extend", "insert_if_not_exists", "insert+extend", "insert+empty-extend"][with.register_via as usize]), 1);
    let (g0, _) = generate_model(r, base);
    let (g1, ev1) = generate_model(r, &with);
    tally(&ev1, &mut ctx.res.counters);
    let (g0, g1) = match (g0, g1) {
        (Ok(a), Ok(b)) => (a, b),
        (Ok(_), Err(e)) if e.starts_with("settings-refused:") => {
            ctx.violation(
                "C07:valid-rule-refused",
                format!("the rule set {:?} is valid (registered via {}) but the settings API refused it: {e}", rules.iter().map(|r| format!("{} => {}", r.from, r.to)).collect::<Vec<_>>(), ["insert", "extend", "insert_if_not_exists", "insert+extend", "insert+empty-extend"][with.register_via as usize]),
                replay(),
            );
            return false;
        }
        (a, b) => {
            ctx.count(&format!("generation[{}|{}]", a.err().unwrap_or("ok".into()), b.err().unwrap_or("ok".into())), 1);
            return false;
        }
    };
    let parsed: Vec<ParsedRule> = rules.iter().map(parse_rule).collect();
    let cl = Classifier::new(base);
    let mut spec = Spec { root: &base.root, alloc: base.alloc_str(), rules: &parsed, paths_only: false, rewritten: 0, max_depth: 0 };
    let mut weak = Spec { root: &base.root, alloc: base.alloc_str(), rules: &parsed, paths_only: true, rewritten: 0, max_depth: 0 };
    let rule_keys: BTreeSet<Vec<String>> = parsed.iter().map(|p| p.key.clone()).collect();
    let mut report = |ctx: &mut Ctx, at: String, want: &syn::Type, got: &syn::Type, weak_want: &syn::Type| {
        let key = if nows(&ts(got)) == nows(&ts(weak_want)) { "C07:param-not-replaced:below-non-path" } else { "C07:type-differs" };
        ctx.violation(key, format!("{at}: expected `{}`, generated `{}`", nows(&ts(want)), nows(&ts(got))), replay());
    };
    // items
    for (path, item0) in &g0.cm.items {
        let key: Vec<String> = path[1..].to_vec();
        if rule_keys.contains(&key) {
            if g1.cm.items.contains_key(path) {
                ctx.violation("C07:substituted-path-defined", format!("{} is substituted but still defined", path.join("::")), replay());
            }
            ctx.count("definitions_removed", 1);
            continue;
        }
        let Some(item1) = g1.cm.items.get(path) else {
            ctx.violation("C07:item-vanished", format!("{} is not substituted but is missing from the output", path.join("::")), replay());
            continue;
        };
        if item0.generics != item1.generics {
            ctx.violation("C07:generics-changed", format!("{}: generics {:?} -> {:?}", path.join("::"), item0.generics, item1.generics), replay());
        }
        let f0: Vec<(String, &FieldM)> = fields_of(item0).into_iter().filter(|(_, f)| !matches!(cl.classify(&f.ty), CHead::Phantom(_))).collect();
        let f1: Vec<(String, &FieldM)> = fields_of(item1).into_iter().filter(|(_, f)| !matches!(cl.classify(&f.ty), CHead::Phantom(_))).collect();
        if f0.len() != f1.len() {
            ctx.violation("C07:field-count-changed", format!("{}: {} fields -> {}", path.join("::"), f0.len(), f1.len()), replay());
            continue;
        }
        for ((n0, a), (_, b)) in f0.iter().zip(f1.iter()) {
            ctx.count("fields_compared", 1);
            let want = spec.rewrite(&a.ty, 0);
            if nows(&ts(&want)) != nows(&ts(&b.ty)) {
                let ww = weak.rewrite(&a.ty, 0);
                report(ctx, format!("{} field {n0}", path.join("::")), &want, &b.ty, &ww);
            }
            if a.compact != b.compact {
                ctx.violation("C07:compact-marker-changed", format!("{} field {n0}", path.join("::")), replay());
            }
        }
    }
    for path in g1.cm.items.keys() {
        if !g0.cm.items.contains_key(path) {
            ctx.violation("C07:item-appeared", format!("{} exists only with the rules", path.join("::")), replay());
        }
    }
    // resolved type paths of every id
    let s0 = base.build();
    let s1 = with.build();
    for t in &r.types {
        let (Ok(Ok(a)), Ok(Ok(b))) = (resolve_path(r, &s0, t.id), resolve_path(r, &s1, t.id)) else {
            ctx.count("resolve_failed", 1);
            continue;
        };
        let (Ok(a), Ok(b)) = (syn::parse2::<syn::Type>(a), syn::parse2::<syn::Type>(b)) else { continue };
        ctx.count("type_paths_compared", 1);
        let want = spec.rewrite(&a, 0);
        if nows(&ts(&want)) != nows(&ts(&b)) {
            let ww = weak.rewrite(&a, 0);
            report(ctx, format!("resolve_type_path({})", t.id), &want, &b, &ww);
        }
    }
    // independent scan: no reference to a substituted generated path survives
    let text = nows(&g1.tokens.to_string());
    for k in &rule_keys {
        if k.len() >= 2 {
            let needle = format!("{}::{}", base.root, k.join("::"));
            // followed by a non-identifier character (avoid prefixes of longer names)
            let mut from = 0;
            while let Some(pos) = text[from..].find(&needle) {
                let end = from + pos + needle.len();
                let next = text[end..].chars().next();
                if !next.map(|c| c.is_alphanumeric() || c == '_').unwrap_or(false) {
                    ctx.violation("C07:leftover-reference", format!("`{needle}` still occurs in the module"), replay());
                    break;
                }
                from = end;
            }
        }
    }
    ctx.count("occurrences_rewritten", spec.rewritten);
    ctx.count(&format!("max_use_depth[{}]", spec.max_depth.min(6)), 1);
    spec.rewritten > 0 && parsed.iter().any(|p| !p.pass_through)
}

pub fn run(ctx: &mut Ctx) {
    let n = ctx.tier.pick(2500u64, 100_000u64);
    for case in 0..n {
        if !ctx.mine(case) {
            continue;
        }
        let mut rng = ctx.rng("c07", case);
        let mut cfg = GenCfg::default();
        cfg.max_defs = 7;
        cfg.p_skip_param = 0.05;
        let prog = ProgGen::new(&mut rng, cfg).gen_program();
        let out = sim::simulate(&prog);
        let mut r = out.registry.clone();
        if !matches!(guard(|| scale_typegen::utils::ensure_unique_type_paths(&mut r)), Ok(Ok(()))) {
            continue;
        }
        let rules = gen_rules(&mut rng, &r, ctx);
        if rules.is_empty() {
            continue;
        }
        let base = base_sdesc(&mut rng, &r);
        ctx.begin_case(&format!("c07 case {case}"));
        let regj = reg::to_json(&r);
        let bj = serde_json::to_value(&base).unwrap();
        let rj = serde_json::to_value(&rules).unwrap();
        let nt = judge(ctx, &r, &base, &rules, &|| json!({"kind": "c07", "registry": regj, "base": bj, "rules": rj}));
        ctx.case(hash_of(&(reg::fingerprint(&r), serde_json::to_string(&rules).unwrap())), nt);
        if ctx.res.samples.len() < 3 && nt {
            ctx.sample(json!({"rules": rules, "entries": r.types.len()}));
        }
    }
}

pub fn replay(ctx: &mut Ctx, v: &serde_json::Value) {
    let r = reg::from_json(&v["registry"]);
    let base: SDesc = serde_json::from_value(v["base"].clone()).expect("base");
    let rules: Vec<Rule> = serde_json::from_value(v["rules"].clone()).expect("rules");
    let vv = v.clone();
    let nt = judge(ctx, &r, &base, &rules, &move || vv.clone());
    ctx.case(0, nt);
}

//! C18 — standalone structs built from a variant's field list are wire-faithful.

use crate::cmodel::*;
use crate::codec::EncGen;
use crate::ev::*;
use crate::gen::*;
use crate::prog::*;
use crate::reg;
use crate::rt;
use crate::sdesc::*;
use crate::settingsgen::pick_root;
use crate::sim;
use rand::Rng;
use scale_info::{form::PortableForm, Field, PortableRegistry, TypeDef, TypeDefPrimitive};
use scale_typegen::typegen::ir::type_ir::CompositeIR;
use scale_typegen::typegen::ir::ToTokensWithSettings;
use scale_typegen::typegen::type_params::TypeParameters;
use scale_typegen::TypeGenerator;
use serde_json::json;
use std::collections::BTreeSet;

pub const META: PropMeta = PropMeta {
    id: "C18",
    level: "exploration",
    rule: "cases = every variant of every enum and every struct whose emitted item has no generic parameters, in simulator registries (after ensure_unique_type_paths), Polkadot (call / event / error enums: thousands of variants) and 3 settings (root, alloc path, docs, CompactAs configured or not, global derives and attributes, specific and recursive registrations on the parent type that must NOT leak). For each: create_composite_ir_kind(fields) + CompositeIR::new + upcast_composite(..).to_token_stream(settings) is parsed and compared with the variant inside the emitted enum: field names, order, type tokens (Box included), compact markers; derives == global derives (+ CompactAs iff configured and exactly one non-marker field that is u8..u128 and not compact-marked; a compact-marked one is don't-care), attributes == global attributes. Artifact tier (one batch quick, several thorough): the structs are compiled inside the case module next to the generated root module with parity-scale-codec derives; for reference encodings of each variant, encode(decode::<Enum>(bytes))[1..] must equal encode(decode::<Struct>(bytes[1..])) and both must consume their input. non-trivial = a variant with >= 1 field; distinct by (registry hash, type id, variant).",
    assumptions: &["payload equality in the interpreted tier follows from token-identical field lists plus C01's fidelity of the enum; the artifact tier observes it directly"],
    required_counters: &["standalone_structs_built", "fields_compared", "compact_fields_seen", "boxed_fields_seen", "compact_as_required", "artifact_payloads_equal", "refused_without_compact_path", "standalone_compact_markers_checked"],
    floor: (1000, 30_000),
    shards: (16, 16),
};

pub struct Built {
    pub tokens: String,
    pub item: Item,
}

/// Build the standalone struct through the public API. Err = the API returned an error / panicked.
pub fn build_struct(r: &PortableRegistry, d: &SDesc, fields: &[Field<PortableForm>], docs: &[String], name: &str) -> Result<Built, String> {
    let settings = d.build();
    let got = guard(|| {
        let gen = TypeGenerator::new(r, &settings);
        let mut tp = TypeParameters::from_scale_info(&[]);
        let kind = gen.create_composite_ir_kind(fields, &mut tp)?;
        let docs = gen.docs_from_scale_info(docs);
        let ident: proc_macro2::Ident = syn::parse_str(name).map_err(scale_typegen::TypegenError::SynParseError)?;
        let comp = CompositeIR::new(ident, kind, docs);
        let ir = gen.upcast_composite(&comp);
        Ok::<_, scale_typegen::TypegenError>(ir.to_token_stream(&settings))
    });
    let ts_ = match got {
        Err(p) => return Err(format!("panic:{}", p.signature())),
        Ok(Err(e)) => return Err(format!("error:{}", err_kind(&e))),
        Ok(Ok(t)) => t,
    };
    let root = &d.root;
    let wrapped: proc_macro2::TokenStream = format!("pub mod {root} {{ use super::{root}; {} }}", ts_).parse().map_err(|e| format!("lex:{e}"))?;
    let cm = CModel::parse(wrapped).map_err(|e| format!("unparsable:{e}"))?;
    let item = cm.items.values().next().cloned().ok_or("no item")?;
    Ok(Built { tokens: ts_.to_string(), item })
}

fn field_sig(f: &FieldM) -> (Option<String>, String, bool) {
    (f.name.clone(), nows(&ts(&f.ty)), f.compact)
}

pub struct Target {
    pub type_id: u32,
    pub variant: Option<usize>,
    pub struct_name: String,
}

pub fn judge_registry(ctx: &mut Ctx, r: &PortableRegistry, d: &SDesc, replay: &dyn Fn(u32, Option<usize>) -> serde_json::Value, collect: &mut Vec<(Target, String)>) {
    let (gen, _) = generate_model(r, d);
    let Ok(gen) = gen else {
        ctx.count("generation_failed", 1);
        return;
    };
    let cl = Classifier::new(d);
    let fp = reg::fingerprint(r);
    let mut seen_paths = BTreeSet::new();
    for t in &r.types {
        if !reg::is_generated(&t.ty) || d.is_substituted(&t.ty.path.segments) || !seen_paths.insert(t.ty.path.segments.clone()) {
            continue;
        }
        let mut path = vec![d.root.clone()];
        path.extend(t.ty.path.segments.iter().cloned());
        let Some(item) = gen.cm.items.get(&path) else { continue };
        if !item.generics.is_empty() {
            ctx.count("skipped_generic_items", 1);
            continue;
        }
        // (variant index, registry fields, docs, emitted fields)
        let mut groups: Vec<(Option<usize>, &[Field<PortableForm>], &[String], &FieldsM, String)> = Vec::new();
        match (&t.ty.type_def, &item.kind) {
            (TypeDef::Composite(c), ItemKind::Struct(f)) => groups.push((None, &c.fields, &t.ty.docs, f, format!("Standalone{}", t.id))),
            (TypeDef::Variant(v), ItemKind::Enum(vs)) => {
                for (i, var) in v.variants.iter().enumerate() {
                    if let Some(cv) = vs.iter().find(|x| x.name == var.name) {
                        groups.push((Some(i), &var.fields, &var.docs, &cv.fields, format!("Standalone{}Variant{}", t.id, var.name)));
                    }
                }
            }
            _ => continue,
        }
        for (vi, fields, docs, emitted, sname) in groups {
            ctx.begin_case(&format!("c18 type {} variant {:?}", t.id, vi));
            let built = match build_struct(r, d, fields, docs, &sname) {
                Ok(b) => b,
                Err(e) => {
                    ctx.violation(format!("C18:api-failed:{}", e.split(':').take(2).collect::<Vec<_>>().join(":")), format!("building a struct from {} variant {:?}: {e}", path.join("::"), vi), replay(t.id, vi));
                    continue;
                }
            };
            ctx.count("standalone_structs_built", 1);
            let ItemKind::Struct(sf) = &built.item.kind else {
                ctx.violation("C18:not-a-struct", built.tokens.clone(), replay(t.id, vi));
                continue;
            };
            if !built.item.generics.is_empty() {
                ctx.violation("C18:unexpected-generics", built.tokens.chars().take(200).collect::<String>(), replay(t.id, vi));
            }
            let a: Vec<_> = sf.fields.iter().filter(|f| !matches!(cl.classify(&f.ty), CHead::Phantom(_))).map(field_sig).collect();
            let b: Vec<_> = emitted.fields.iter().filter(|f| !matches!(cl.classify(&f.ty), CHead::Phantom(_))).map(field_sig).collect();
            ctx.count("fields_compared", a.len() as u64);
            ctx.count("compact_fields_seen", a.iter().filter(|f| f.2).count() as u64);
            ctx.count("boxed_fields_seen", a.iter().filter(|f| f.1.contains("boxed::Box<")).count() as u64);
            if a != b {
                let kind = if a.len() != b.len() {
                    "field-count"
                } else if a.iter().zip(b.iter()).any(|(x, y)| x.0 != y.0) {
                    "field-name"
                } else if a.iter().zip(b.iter()).any(|(x, y)| x.2 != y.2) {
                    "compact-marker"
                } else {
                    "field-type"
                };
                ctx.violation(format!("C18:{kind}"), format!("{} variant {:?}: standalone struct fields {:?}, variant fields {:?}", path.join("::"), vi, a, b), replay(t.id, vi));
            }
            // Box markers against the registry's field list itself (the variant of the emitted enum
            // goes through the same routine and would share a wrong marker): one Box around the
            // field iff the recorded type name mentions `Box<`, none around a compact member
            let real: Vec<&FieldM> = sf.fields.iter().filter(|f| !matches!(cl.classify(&f.ty), CHead::Phantom(_))).collect();
            if real.len() == fields.len() {
                for (rf, cf) in fields.iter().zip(real.iter()) {
                    let Some(tn) = &rf.type_name else { continue };
                    let mentions_box = tn.match_indices("Box<").any(|(i, _)| i == 0 || !tn[..i].chars().last().map(|c| c.is_alphanumeric() || c == '_').unwrap_or(false));
                    let compact = cf.compact || matches!(r.resolve(rf.ty.id).map(|t| &t.type_def), Some(TypeDef::Compact(_)));
                    let want = mentions_box && !compact;
                    let got = matches!(cl.classify(&cf.ty), CHead::Box(_));
                    ctx.count("box_markers_checked", 1);
                    if want != got {
                        ctx.violation(
                            "C18:box-marker",
                            format!("{} variant {:?}: member `{}` has recorded type name `{tn}` but the standalone struct has `{}`", path.join("::"), vi, rf.name.clone().unwrap_or_default(), nows(&ts(&cf.ty))),
                            replay(t.id, vi),
                        );
                    }
                }
            }
            if sf.style != emitted.style && !(fields.is_empty()) {
                ctx.violation("C18:field-style", format!("{} variant {:?}: struct is {:?}, variant is {:?}", path.join("::"), vi, sf.style, emitted.style), replay(t.id, vi));
            }
            // derives: exactly the global ones (+ CompactAs)
            let mut want_d: BTreeSet<String> = d.global_derives.iter().map(|x| nows(x)).collect();
            let got_d: BTreeSet<String> = built.item.derives().into_iter().collect();
            let ca = d.compact_as_path.as_deref().map(nows);
            let mut allowed_extra: Option<String> = None;
            if let Some(ca) = &ca {
                if a.len() == 1 {
                    let mut fty = sf.fields.iter().find(|f| !matches!(cl.classify(&f.ty), CHead::Phantom(_))).unwrap().ty.clone();
                    while let CHead::Box(inner) = cl.classify(&fty) {
                        fty = inner;
                    }
                    let uint = matches!(cl.classify(&fty), CHead::Prim(TypeDefPrimitive::U8 | TypeDefPrimitive::U16 | TypeDefPrimitive::U32 | TypeDefPrimitive::U64 | TypeDefPrimitive::U128));
                    if uint && !a[0].2 {
                        want_d.insert(ca.clone());
                        ctx.count("compact_as_required", 1);
                    } else if uint {
                        allowed_extra = Some(ca.clone());
                    }
                }
            }
            let got_minus: BTreeSet<String> = got_d.iter().filter(|x| Some(*x) != allowed_extra.as_ref()).cloned().collect();
            if got_minus != want_d {
                ctx.violation("C18:derives", format!("{} variant {:?}: derives {:?}, expected exactly {:?}", path.join("::"), vi, got_d, want_d), replay(t.id, vi));
            }
            let want_a: BTreeSet<String> = d.global_attrs.iter().map(|x| nows(x)).collect();
            let got_a: BTreeSet<String> = built.item.attrs.iter().filter(|x| !x.starts_with("@gen")).map(|x| nows(x)).collect();
            if got_a != want_a {
                ctx.violation("C18:attributes", format!("{} variant {:?}: attributes {:?}, expected exactly {:?}", path.join("::"), vi, got_a, want_a), replay(t.id, vi));
            }
            if d.docs && built.item.docs != docs {
                ctx.violation("C18:docs", format!("{} variant {:?}: docs {:?} vs {:?}", path.join("::"), vi, built.item.docs, docs), replay(t.id, vi));
            }
            ctx.case(hash_of(&(fp, t.id, vi, serde_json::to_string(d).unwrap())), !fields.is_empty());
            collect.push((Target { type_id: t.id, variant: vi, struct_name: sname.clone() }, built.tokens));
        }
    }
}

/// With the compact path unset the enum itself cannot be generated; a standalone struct built from
/// a field list with a compact member must then be refused too (the documented error) - or, if it
/// is built, carry the compact marker exactly where the registry has a compact, like the variant
/// of the enum generated with the path set does.
pub fn judge_without_compact_path(ctx: &mut Ctx, r: &PortableRegistry, d: &SDesc, replay: &dyn Fn(u32, Option<usize>) -> serde_json::Value) {
    let mut d2 = d.clone();
    d2.compact_path = None;
    judge_compact_markers(ctx, r, &d2, "C18:compact-marker", "built with the compact path unset", replay)
}

/// Standalone structs of every member list with a compact member, built with settings `d2`: refused
/// with the documented error, or carrying the compact marker exactly where the registry has a compact.
pub fn judge_compact_markers(ctx: &mut Ctx, r: &PortableRegistry, d2: &SDesc, key: &str, how: &str, replay: &dyn Fn(u32, Option<usize>) -> serde_json::Value) {
    let d = d2;
    let is_compact = |f: &Field<PortableForm>| matches!(r.resolve(f.ty.id).map(|t| &t.type_def), Some(TypeDef::Compact(_)));
    for t in &r.types {
        if !reg::is_generated(&t.ty) || d.is_substituted(&t.ty.path.segments) || t.ty.type_params.iter().any(|p| p.ty.is_some()) {
            continue;
        }
        let groups: Vec<(Option<usize>, &[Field<PortableForm>])> = match &t.ty.type_def {
            TypeDef::Composite(c) => vec![(None, &c.fields[..])],
            TypeDef::Variant(v) => v.variants.iter().enumerate().map(|(i, v)| (Some(i), &v.fields[..])).collect(),
            _ => continue,
        };
        for (vi, fields) in groups {
            let want: Vec<bool> = fields.iter().map(|f| is_compact(f)).collect();
            if !want.iter().any(|c| *c) {
                continue;
            }
            ctx.begin_case(&format!("c18 (no compact path) type {} variant {:?}", t.id, vi));
            match build_struct(r, d2, fields, &[], "CompactMarkers") {
                Err(e) if e == "error:CompactPathNone" && d2.compact_path.is_none() => ctx.count("refused_without_compact_path", 1),
                Err(e) => ctx.count(&format!("without_compact_path[{e}]"), 1),
                Ok(b) => {
                    let ItemKind::Struct(sf) = &b.item.kind else { continue };
                    let got: Vec<bool> = sf.fields.iter().map(|f| f.compact).collect();
                    ctx.count("standalone_compact_markers_checked", 1);
                    if got.len() < want.len() || want.iter().zip(got.iter()).any(|(w, g)| w != g) {
                        ctx.violation(
                            key,
                            format!("type {} variant {:?} {how}: compact members {:?} in the registry, markers {:?} on the struct `{}`", t.id, vi, want, got, b.tokens.chars().take(200).collect::<String>()),
                            replay(t.id, vi),
                        );
                    }
                }
            }
        }
    }
}

fn settings_for<R: Rng>(rng: &mut R, r: &PortableRegistry, artifact: bool) -> SDesc {
    let mut d = if artifact { crate::art::artifact_sdesc("root", rng.gen_bool(0.5), rng.gen_bool(0.5), false) } else { SDesc::default() };
    d.root = pick_root(rng, r);
    if !artifact {
        d.alloc = if rng.gen_bool(0.5) { None } else { Some("::alloc".into()) };
        d.docs = rng.gen_bool(0.5);
        d.compact_as_path = rng.gen_bool(0.6).then(|| "::zz::CompactAs".to_string());
        d.global_derives = (0..rng.gen_range(0..=3)).map(|j| format!("::g::G{j}")).collect();
        if rng.gen_bool(0.5) {
            d.global_attrs = vec!["#[g_attr]".into()];
        }
        // registrations on parent types must not leak into the standalone structs
        for p in crate::settingsgen::generated_paths(r).into_iter().filter(|p| p[0] != "bitvec").take(3) {
            d.specific.push(SpecificDerive { path: p.join("::"), derives: vec!["::leak::Specific".into()], attrs: vec!["#[leak_attr]".into()], recursive: rng.gen_bool(0.5) });
        }
    }
    d
}

/// Artifact tier: compile enum + standalone structs, compare payloads on reference encodings.
fn artifact(ctx: &mut Ctx, inputs: Vec<(PortableRegistry, SDesc, String)>) {
    let mut cases = Vec::new();
    let mut plans: Vec<Vec<(u32, Target, String)>> = Vec::new();
    let mut kept = Vec::new();
    for (r, d, label) in inputs {
        let settings = d.build();
        let GenOutcome::Ok(module) = generate(&r, &settings).outcome else { continue };
        let mut collected = Vec::new();
        let mut scratch = Ctx::new("C18", ctx.tier, ctx.seed, 0, 1, None);
        judge_registry(&mut scratch, &r, &d, &|_, _| json!(null), &mut collected);
        let mut extra = String::from("pub fn extra(key: u32, b: &[u8]) -> String {\n    use ::parity_scale_codec::{Decode, Encode};\n    match key {\n");
        let mut structs = String::new();
        let mut plan = Vec::new();
        for (k, (target, tokens)) in collected.into_iter().enumerate() {
            let Ok(Ok(ety)) = resolve_path(&r, &settings, target.type_id) else { continue };
            structs.push_str(&tokens);
            structs.push('\n');
            let skip = if target.variant.is_some() { 1 } else { 0 };
            extra.push_str(&format!(
                "        {k} => {{ let mut i1 = b; let e = match <{ety} as Decode>::decode(&mut i1) {{ Ok(v) => v, Err(e) => return format!(\"err enum {{e}}\") }}; if !i1.is_empty() {{ return \"err enum-leftover\".into(); }} let mut i2 = &b[{skip}..]; let s = match <{} as Decode>::decode(&mut i2) {{ Ok(v) => v, Err(e) => return format!(\"err struct {{e}}\") }}; if !i2.is_empty() {{ return \"err struct-leftover\".into(); }} if e.encode()[{skip}..] == s.encode()[..] {{ \"ok\".into() }} else {{ format!(\"err payload {{}} vs {{}}\", ::vrt::hex(&e.encode()), ::vrt::hex(&s.encode())) }} }}\n",
                target.struct_name
            ));
            plan.push((k as u32, target, ety.to_string()));
        }
        extra.push_str("        _ => \"err unknown key\".to_string(),\n    }\n}\n");
        cases.push(rt::ArtCase { name: label.clone(), module: format!("{}\n{}", module, structs), types: vec![], extra });
        plans.push(plan);
        kept.push((r, d, label));
    }
    if cases.is_empty() {
        return;
    }
    let built = rt::build(&cases, &format!("C18-{}", ctx.shard), ctx.shard % 4, true);
    for (idx, errs) in &built.failed {
        // compile failures of the generated module itself are C02's business; failures that name
        // a standalone struct are ours
        let ours = errs.iter().any(|e| e.contains("Standalone"));
        if ours {
            ctx.violation(
                "C18:rustc",
                format!("standalone structs of {} do not compile: {}", kept[*idx].2, errs.iter().take(3).cloned().collect::<Vec<_>>().join(" | ")),
                json!({"kind": "c18-artifact", "label": kept[*idx].2}),
            );
        } else {
            ctx.count("artifact_cases_rejected_by_rustc", 1);
        }
    }
    if built.exe.is_some() {
        let mut queries = Vec::new();
        let mut meta = Vec::new();
        for (ci, plan) in plans.iter().enumerate() {
            if built.failed.contains_key(&ci) {
                continue;
            }
            let (r, _, _) = &kept[ci];
            let mut rng = ctx.rng("c18-enc", ci as u64);
            for (k, target, _) in plan {
                for _ in 0..ctx.tier.pick(3, 8) {
                    // a reference encoding of exactly this variant: index byte + fields
                    let mut bytes = Vec::new();
                    let t = r.resolve(target.type_id).unwrap();
                    let fields: Vec<u32> = match (&t.type_def, target.variant) {
                        (TypeDef::Variant(v), Some(i)) => {
                            bytes.push(v.variants[i].index);
                            v.variants[i].fields.iter().map(|f| f.ty.id).collect()
                        }
                        (TypeDef::Composite(c), None) => c.fields.iter().map(|f| f.ty.id).collect(),
                        _ => continue,
                    };
                    let mut g = EncGen { reg: r, rng: &mut rng, canonical_collections: true, budget: 200, saw_unit_compact: false, steps: 0 };
                    if fields.iter().all(|f| g.gen(*f, 1, &mut bytes).is_ok()) {
                        queries.push(("extra", ci, *k, bytes));
                        meta.push((ci, target.type_id, target.variant));
                    }
                }
            }
        }
        match rt::run(&built, &queries) {
            Ok(lines) => {
                for ((line, q), m) in lines.iter().zip(queries.iter()).zip(meta.iter()) {
                    if line == "ok" {
                        ctx.count("artifact_payloads_equal", 1);
                    } else {
                        ctx.violation(
                            format!("C18:artifact:{}", line.split(' ').take(2).collect::<Vec<_>>().join("-")),
                            format!("{} type {} variant {:?}: bytes {} -> `{}`", kept[m.0].2, m.1, m.2, crate::mon::c01::hex(&q.3), line.chars().take(200).collect::<String>()),
                            json!({"kind": "c18", "registry": reg::to_json(&kept[m.0].0), "sdesc": serde_json::to_value(&kept[m.0].1).unwrap(), "id": m.1, "variant": m.2}),
                        );
                    }
                }
            }
            Err(e) => ctx.inconclusive(format!("artifact run failed: {e}")),
        }
    } else if built.failed.is_empty() {
        ctx.inconclusive(format!("artifact build failed: {}", built.other_errors.join(" | ").chars().take(400).collect::<String>()));
    }
    rt::cleanup(&built);
}

pub fn run(ctx: &mut Ctx) {
    // artifact tier first (shards 0..batches)
    let batches = ctx.tier.pick(1usize, 6usize);
    if ctx.shard < batches.min(4) {
        let mut b = ctx.shard;
        while b < batches {
            let mut inputs = Vec::new();
            for case in 0..ctx.tier.pick(25u64, 80u64) {
                let mut rng = ctx.rng(&format!("c18-art-{b}"), case);
                let mut cfg = GenCfg::default();
                cfg.allow_char = false;
                cfg.generic_recursion = false;
                cfg.max_insts = 1;
                let prog = ProgGen::new(&mut rng, cfg).gen_program();
                let out = sim::simulate(&prog);
                let noncf = sim::cf_source(&prog, &out).values().any(|x| x.is_some());
                let mut r = out.registry.clone();
                if noncf || !matches!(guard(|| scale_typegen::utils::ensure_unique_type_paths(&mut r)), Ok(Ok(()))) {
                    continue;
                }
                let d = settings_for(&mut rng, &r, true);
                inputs.push((r, d, format!("c18-art-{b}#{case}")));
            }
            if b == 0 && ctx.tier == Tier::Thorough {
                let mut r = reg::load_polkadot();
                if matches!(guard(|| scale_typegen::utils::ensure_unique_type_paths(&mut r)), Ok(Ok(()))) {
                    inputs.push((r, crate::art::artifact_sdesc("runtime_types", false, true, true), "polkadot".into()));
                }
            }
            artifact(ctx, inputs);
            ctx.count("artifact_batches", 1);
            b += 4;
        }
    }
    let n = ctx.tier.pick(1500u64, 50_000u64);
    for case in 0..n {
        if !ctx.mine(case) {
            continue;
        }
        let mut rng = ctx.rng("c18", case);
        let mut cfg = GenCfg::default();
        cfg.max_insts = 2;
        let prog = ProgGen::new(&mut rng, cfg).gen_program();
        let out = sim::simulate(&prog);
        let mut r = out.registry.clone();
        if !matches!(guard(|| scale_typegen::utils::ensure_unique_type_paths(&mut r)), Ok(Ok(()))) {
            continue;
        }
        let d = settings_for(&mut rng, &r, false);
        let regj = reg::to_json(&r);
        let dj = serde_json::to_value(&d).unwrap();
        let mut sink = Vec::new();
        judge_registry(ctx, &r, &d, &|id, v| json!({"kind": "c18", "registry": regj, "sdesc": dj, "id": id, "variant": v}), &mut sink);
        if case % 4 == 0 {
            judge_without_compact_path(ctx, &r, &d, &|id, v| json!({"kind": "c18", "registry": regj, "sdesc": dj, "id": id, "variant": v, "no_compact_path": true}));
        }
        if d.codec_attrs {
            // compact markers against the registry itself, with the settings as they are (the enum's
            // own variant goes through the same renderer and would share a missing marker)
            judge_compact_markers(ctx, &r, &d, "C18:compact-marker", "(settings as given)", &|id, v| json!({"kind": "c18", "registry": regj, "sdesc": dj, "id": id, "variant": v, "markers_only": true}));
        }
        if ctx.res.samples.len() < 2 {
            if let Some((t, tokens)) = sink.first() {
                ctx.sample(json!({"type_id": t.type_id, "variant": t.variant, "standalone_struct": tokens.chars().take(300).collect::<String>()}));
            }
        }
    }
    // Polkadot: every variant of every non-generic enum
    if ctx.shard == 0 {
        let mut r = reg::load_polkadot();
        if matches!(guard(|| scale_typegen::utils::ensure_unique_type_paths(&mut r)), Ok(Ok(()))) {
            let mut rng = ctx.rng("c18-polkadot", 0);
            let mut d = settings_for(&mut rng, &r, false);
            d.root = "runtime_types".into();
            d.specific.clear();
            let dj = serde_json::to_value(&d).unwrap();
            let mut sink = Vec::new();
            judge_registry(ctx, &r, &d, &|id, v| json!({"kind": "c18-polkadot", "sdesc": dj, "id": id, "variant": v}), &mut sink);
            ctx.count("polkadot_standalone_structs", sink.len() as u64);
        }
    }
}

pub fn replay(ctx: &mut Ctx, v: &serde_json::Value) {
    if v["kind"].as_str() != Some("c18") {
        ctx.note("polkadot / artifact cases are re-run by the monitor itself");
        return;
    }
    let r = reg::from_json(&v["registry"]);
    let d: SDesc = serde_json::from_value(v["sdesc"].clone()).expect("sdesc");
    let vv = v.clone();
    if v["markers_only"].as_bool() == Some(true) {
        let vv2 = v.clone();
        judge_compact_markers(ctx, &r, &d, "C18:compact-marker", "(settings as given)", &move |_, _| vv2.clone());
        ctx.case(0, true);
        return;
    }
    if v["no_compact_path"].as_bool() == Some(true) {
        judge_without_compact_path(ctx, &r, &d, &move |_, _| vv.clone());
        ctx.case(0, true);
        return;
    }
    let mut sink = Vec::new();
    judge_registry(ctx, &r, &d, &move |_, _| vv.clone(), &mut sink);
}

//! C06 — output is a deterministic function of registry and settings-as-sets.

use crate::cmodel::{nows, ts, CModel};
use crate::ev::*;
use crate::gen::*;
use crate::prog::*;
use crate::reg;
use crate::sdesc::*;
use crate::settingsgen::generated_paths;
use crate::sim;
use rand::seq::SliceRandom;
use rand::Rng;
use scale_info::PortableRegistry;
use scale_typegen::typegen::validation::validate_substitutes_and_derives_against_registry;
use serde_json::json;
use std::collections::{BTreeMap, BTreeSet};

pub const META: PropMeta = PropMeta {
    id: "C06",
    level: "exploration",
    rule: "cases = (registry with repeated paths and hostile names, settings with 8..20 global derives, 3..8 global attributes, 4..16 specific/recursive registrations, 3..12 substitutes incl. unknown paths) so that a leaked HashMap/HashSet order differs with high probability. Per case: 3 in-process repetitions with freshly built settings (fresh RandomState per map), 4 random permutations of the registration order of derives/attributes/specific entries/substitutes, and N fresh child processes (quick 3, thorough 10 per shard) re-executing every case of the shard from its seed. Compared: token string of the generated module, registry after ensure_unique_type_paths, validation result normalised as sorted sets. Also: every emitted derive list and attribute list must be sorted by token string and duplicate-free. The iteration order of the public Derives::derives() set is recorded in every run; distinct_hash_orders counts the distinct orders observed (evidence that hash seeds varied; < 2 => inconclusive). non-trivial = generation succeeded with >= 1 item carrying >= 2 derives; distinct by case hash.",
    assumptions: &["hash seeds vary through std's per-map RandomState and across processes; the number of distinct iteration orders actually observed is reported"],
    required_counters: &["child_processes", "permutations_compared", "derive_lists_checked", "distinct_hash_orders_ge2"],
    floor: (300, 5000),
    shards: (8, 16),
};

pub fn rich_sdesc<R: Rng>(rng: &mut R, r: &PortableRegistry) -> SDesc {
    let mut d = SDesc::default();
    d.root = crate::settingsgen::pick_root(rng, r);
    let mut pool: Vec<String> = (0..30).map(|i| format!("::d{}::D{}", i % 4, i)).collect();
    pool.extend(["Debug", "Clone", "PartialEq", "Eq"].iter().map(|s| s.to_string()));
    // names that are another name plus a digit (`::d1::..` / `::d12::..`, `::serde` / `::serde2`):
    // their order depends on what follows the shorter name in the sort key
    pool.extend(["::d1::Z", "::d12::A", "::d12::Z", "::serde::Serialize", "::serde2::Serialize", "::serde::ser2::X"].iter().map(|s| s.to_string()));
    pool.shuffle(rng);
    d.global_derives = pool[..rng.gen_range(8..=20)].to_vec();
    // several attributes share one attribute path (as #[serde(..)] / #[codec(..)] do in practice)
    let mut apool: Vec<String> = (0..12).map(|i| format!("#[a{}(x = {i})]", i % 3)).collect();
    // attributes that differ only in blanks inside a literal, and names that are a name plus a digit
    apool.extend(["#[note = \" generated\"]", "#[note = \"generated\"]", "#[note = \"gene rated\"]", "#[cfg1 = \"a\"]", "#[cfg12 = \"a\"]", "#[cfg1(b)]"].iter().map(|s| s.to_string()));
    apool.shuffle(rng);
    d.global_attrs = apool[..rng.gen_range(3..=8)].to_vec();
    let mut paths: Vec<String> = generated_paths(r).into_iter().map(|p| p.join("::")).collect();
    paths.extend(["krate::Unknown1".to_string(), "other::Unknown2".to_string()]);
    for _ in 0..rng.gen_range(4..=16) {
        let mut dp = pool.clone();
        dp.shuffle(rng);
        d.specific.push(SpecificDerive {
            path: paths.choose(rng).unwrap().clone(),
            derives: dp[..rng.gen_range(0..=5)].to_vec(),
            attrs: if rng.gen_bool(0.5) { vec![apool.choose(rng).unwrap().clone()] } else { vec![] },
            recursive: rng.gen_bool(0.5),
        });
    }
    let mut used = BTreeSet::new();
    for i in 0..rng.gen_range(3..=12) {
        let p = paths.choose(rng).unwrap().clone();
        if p.starts_with("bitvec") || !used.insert(p.clone()) {
            continue;
        }
        d.substitutes.push((p, format!("::ext::S{i}")));
    }
    d
}

fn permuted<R: Rng>(rng: &mut R, d: &SDesc) -> SDesc {
    let mut p = d.clone();
    p.global_derives.shuffle(rng);
    p.global_attrs.shuffle(rng);
    p.specific.shuffle(rng);
    for s in p.specific.iter_mut() {
        s.derives.shuffle(rng);
    }
    // substitutes: distinct source paths, so the order of insertion must not matter
    p.substitutes.shuffle(rng);
    // for-all registrations before or after the per-type ones, rules by insert / extend / insert-if-absent
    p.globals_last = rng.gen_bool(0.5);
    p.register_via = rng.gen_range(0..5);
    p
}

pub struct Obs {
    pub tokens: String,
    pub dedup_fp: u64,
    pub validation: String,
    pub hash_order: String,
}

fn validation_norm(r: &PortableRegistry, d: &SDesc) -> String {
    let s = d.build();
    match guard(|| validate_substitutes_and_derives_against_registry(&s.substitutes, &s.derives, r)) {
        Err(p) => format!("panic:{}", p.signature()),
        Ok(Ok(())) => "ok".into(),
        Ok(Err(e)) => {
            let mut a: Vec<String> = e
                .derives_for_unknown_types
                .iter()
                .map(|(p, s)| {
                    let mut v: Vec<String> = s.iter().map(|x| nows(&ts(x))).collect();
                    v.sort();
                    format!("D {} {:?}", nows(&ts(p)), v)
                })
                .collect();
            a.extend(e.attributes_for_unknown_types.iter().map(|(p, s)| {
                let mut v: Vec<String> = s.iter().map(|x| nows(&ts(x))).collect();
                v.sort();
                format!("A {} {:?}", nows(&ts(p)), v)
            }));
            a.extend(e.substitutes_for_unknown_types.iter().map(|(p, t)| format!("S {} {}", nows(&ts(p)), nows(&ts(t)))));
            a.sort();
            a.join(";")
        }
    }
}

pub fn observe(r: &PortableRegistry, d: &SDesc) -> Obs {
    let settings = d.build();
    let hash_order: String =
        settings.derives.default_derives().derives().iter().map(|p| nows(&ts(p))).collect::<Vec<_>>().join(",");
    let mut r2 = r.clone();
    let dedup_fp = match guard(|| scale_typegen::utils::ensure_unique_type_paths(&mut r2)) {
        Ok(Ok(())) => reg::fingerprint(&r2),
        _ => 0,
    };
    let tokens = match generate(&r2, &settings).outcome {
        GenOutcome::Ok(ts) => ts.to_string(),
        GenOutcome::Err(e) => format!("error:{}", err_kind(&e)),
        GenOutcome::Panic(p) => format!("panic:{}", p.signature()),
    };
    Obs { tokens, dedup_fp, validation: validation_norm(r, d), hash_order }
}

pub fn gen_case(ctx: &Ctx, case: u64) -> (PortableRegistry, SDesc, rand_chacha::ChaCha8Rng) {
    let mut rng = ctx.rng("c06", case);
    let mut cfg = GenCfg::default();
    cfg.hostile_names = case % 2 == 0;
    cfg.p_assoc = 0.4;
    cfg.max_defs = 6;
    let prog = ProgGen::new(&mut rng, cfg).gen_program();
    let out = sim::simulate(&prog);
    let d = rich_sdesc(&mut rng, &out.registry);
    (out.registry, d, rng)
}

fn my_cases(ctx: &Ctx) -> Vec<u64> {
    let n = ctx.tier.pick(800u64, 20_000u64);
    (0..n).filter(|c| ctx.mine(*c)).collect()
}

fn sortedness(ctx: &mut Ctx, tokens: &str, replay: &dyn Fn() -> serde_json::Value) -> bool {
    let Ok(ts_) = tokens.parse::<proc_macro2::TokenStream>() else { return false };
    let Ok(cm) = CModel::parse(ts_) else { return false };
    let mut multi = false;
    for (path, item) in &cm.items {
        for list in &item.derive_lists_raw {
            ctx.count("derive_lists_checked", 1);
            if list.len() >= 2 {
                multi = true;
            }
            let mut sorted = list.clone();
            sorted.sort();
            if *list != sorted {
                ctx.violation("C06:derives-unsorted", format!("{}: derive list {list:?} is not sorted by token string", path.join("::")), replay());
            }
            sorted.dedup();
            if sorted.len() != list.len() {
                ctx.violation("C06:derives-duplicate", format!("{}: derive list {list:?} has duplicates", path.join("::")), replay());
            }
        }
        let attrs: Vec<&String> = item.attrs.iter().filter(|a| !a.starts_with("@gen")).collect();
        ctx.count("attribute_lists_checked", 1);
        let mut sorted = attrs.clone();
        sorted.sort();
        if attrs != sorted {
            ctx.violation("C06:attributes-unsorted", format!("{}: attributes {attrs:?} are not sorted by token string", path.join("::")), replay());
        }
        sorted.dedup();
        if sorted.len() != attrs.len() {
            ctx.violation("C06:attributes-duplicate", format!("{}: attributes {attrs:?} have duplicates", path.join("::")), replay());
        }
    }
    multi
}

/// child mode: print `case hash-of-tokens dedup validation-hash hash-order` per case
pub fn child(ctx: &Ctx) {
    for case in my_cases(ctx) {
        let (r, d, _) = gen_case(ctx, case);
        let o = observe(&r, &d);
        println!("C06CHILD {case} {:016x} {:016x} {:016x} {:016x}", hash_of(&o.tokens), o.dedup_fp, hash_of(&o.validation), hash_of(&o.hash_order));
    }
}

pub fn run(ctx: &mut Ctx) {
    let cases = my_cases(ctx);
    let mut base: BTreeMap<u64, (u64, u64, u64)> = BTreeMap::new();
    let mut orders: BTreeMap<u64, BTreeSet<u64>> = BTreeMap::new();
    for &case in &cases {
        let (r, d, mut rng) = gen_case(ctx, case);
        ctx.begin_case(&format!("c06 case {case}"));
        let dj = serde_json::to_value(&d).unwrap();
        let regj = reg::to_json(&r);
        let replay = || json!({"kind": "c06", "registry": regj, "sdesc": dj});
        let o0 = observe(&r, &d);
        orders.entry(case).or_default().insert(hash_of(&o0.hash_order));
        let multi = sortedness(ctx, &o0.tokens, &replay);
        // in-process repetitions (fresh maps)
        for rep in 0..3 {
            let o = observe(&r, &d);
            orders.entry(case).or_default().insert(hash_of(&o.hash_order));
            if o.tokens != o0.tokens {
                ctx.violation("C06:tokens-differ-in-process", format!("repetition {rep} of case {case} produced different tokens"), replay());
            }
            if o.dedup_fp != o0.dedup_fp {
                ctx.violation("C06:dedup-differs-in-process", format!("repetition {rep} of case {case}: de-duplicated registry differs"), replay());
            }
            if o.validation != o0.validation {
                ctx.violation("C06:validation-differs-in-process", format!("repetition {rep} of case {case}: validation result differs as a set"), replay());
            }
            ctx.count("in_process_repetitions", 1);
        }
        // registration-order permutations
        for k in 0..4 {
            let dp = permuted(&mut rng, &d);
            let o = observe(&r, &dp);
            orders.entry(case).or_default().insert(hash_of(&o.hash_order));
            ctx.count("permutations_compared", 1);
            if o.tokens != o0.tokens {
                ctx.violation(
                    "C06:tokens-differ-by-registration-order",
                    format!("permutation {k} of case {case} produced different tokens"),
                    json!({"kind": "c06", "registry": regj, "sdesc": dj, "permuted": serde_json::to_value(&dp).unwrap()}),
                );
            }
            if o.validation != o0.validation {
                ctx.violation("C06:validation-differs-by-registration-order", format!("permutation {k} of case {case}: validation result differs as a set"), replay());
            }
        }
        base.insert(case, (hash_of(&o0.tokens), o0.dedup_fp, hash_of(&o0.validation)));
        ctx.case(hash_of(&(reg::fingerprint(&r), serde_json::to_string(&d).unwrap())), multi && !o0.tokens.starts_with("error") && !o0.tokens.starts_with("panic"));
        if ctx.res.samples.len() < 2 {
            ctx.sample(json!({"entries": r.types.len(), "global_derives": d.global_derives.len(), "specific": d.specific.len(), "substitutes": d.substitutes.len(), "tokens_hash": format!("{:016x}", hash_of(&o0.tokens))}));
        }
    }
    // fresh child processes
    let n_children = ctx.tier.pick(3, 10);
    let exe = std::env::current_exe().expect("exe");
    for c in 0..n_children {
        ctx.begin_case(&format!("child process {c}"));
        let out = std::process::Command::new(&exe)
            .args(["c06-child", "--tier", ctx.tier.name(), "--seed", &ctx.seed.to_string(), "--shard", &ctx.shard.to_string(), "--of", &ctx.of.to_string()])
            .output();
        let Ok(out) = out else {
            ctx.inconclusive("cannot spawn child process");
            continue;
        };
        ctx.count("child_processes", 1);
        for line in String::from_utf8_lossy(&out.stdout).lines() {
            let f: Vec<&str> = line.split(' ').collect();
            if f.len() != 6 || f[0] != "C06CHILD" {
                continue;
            }
            let case: u64 = f[1].parse().unwrap_or(u64::MAX);
            let h = |s: &str| u64::from_str_radix(s, 16).unwrap_or(0);
            let Some(b) = base.get(&case) else { continue };
            orders.entry(case).or_default().insert(h(f[5]));
            ctx.count("child_case_comparisons", 1);
            if h(f[2]) != b.0 {
                ctx.violation("C06:tokens-differ-across-processes", format!("case {case}: a fresh process produced different tokens"), json!({"kind": "c06-seeded", "case": case, "seed": ctx.seed, "tier": ctx.tier.name(), "shard": ctx.shard, "of": ctx.of}));
            }
            if h(f[3]) != b.1 {
                ctx.violation("C06:dedup-differs-across-processes", format!("case {case}: a fresh process produced a different de-duplicated registry"), json!({"kind": "c06-seeded", "case": case}));
            }
            if h(f[4]) != b.2 {
                ctx.violation("C06:validation-differs-across-processes", format!("case {case}: a fresh process produced a different validation result"), json!({"kind": "c06-seeded", "case": case}));
            }
        }
    }
    let ge2 = orders.values().filter(|s| s.len() >= 2).count() as u64;
    ctx.count("distinct_hash_orders_ge2", ge2);
    ctx.count("max_distinct_hash_orders_per_case", orders.values().map(|s| s.len()).max().unwrap_or(0) as u64);
}

pub fn replay(ctx: &mut Ctx, v: &serde_json::Value) {
    if v["kind"].as_str() != Some("c06") {
        ctx.note("seeded C06 cases are re-run by the monitor itself");
        return;
    }
    let r = reg::from_json(&v["registry"]);
    let d: SDesc = serde_json::from_value(v["sdesc"].clone()).expect("sdesc");
    let vv = v.clone();
    let replay = move || vv.clone();
    let o0 = observe(&r, &d);
    sortedness(ctx, &o0.tokens, &replay);
    for _ in 0..8 {
        let o = observe(&r, &d);
        if o.tokens != o0.tokens {
            ctx.violation("C06:tokens-differ-in-process", "repetition produced different tokens".to_string(), replay());
        }
    }
    if let Ok(dp) = serde_json::from_value::<SDesc>(v["permuted"].clone()) {
        if observe(&r, &dp).tokens != o0.tokens {
            ctx.violation("C06:tokens-differ-by-registration-order", "permutation produced different tokens".to_string(), replay());
        }
    }
    ctx.case(0, true);
}

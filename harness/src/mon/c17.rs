//! C17 — output depends only on the type graph: renumbering, order, restriction.

use crate::cmodel::*;
use crate::ev::*;
use crate::gen::*;
use crate::prog::*;
use crate::reg;
use crate::sdesc::SDesc;
use crate::settingsgen::pick_root;
use crate::sim;
use rand::seq::SliceRandom;
use rand::Rng;
use scale_info::PortableRegistry;
use scale_typegen_description::{scale_value_from_seed, type_description};
use serde_json::json;
use std::collections::{BTreeMap, BTreeSet};

pub const META: PropMeta = PropMeta {
    id: "C17",
    level: "exploration",
    rule: "cases = well-formed, coincidence-free registries (simulator programs whose every instantiation is coincidence-free and whose families are untainted; Polkadot sub-registries restricted likewise; and merges of two versions of one program - same paths, one local edit - whose members are coincidence-free; a hand-written gallery of four-parameter definitions in which one member uses two parameters and two more stay unused, with the arguments numbered rising / falling / mixed, and four-parameter definitions in every fourth random program), each with (a) 6 (quick) / 10 (thorough) permutations of its entries with consistent renumbering (reversal, 'second instantiation first', random) and (b) 3 / 5 reachability-closed sub-registries produced by PortableRegistry::retain from random root sets. Oracles (metamorphic): (a) generate_types_mod on the permuted registry returns the same outcome and, when Ok, a token-identical module; ensure_unique_type_paths partitions the entries into the same rename groups (compared as a partition through the id map); (b) for every path emitted from the sub-registry the item is token-identical to the item emitted from the full registry; type_description of every retained id is the same string; example-value validity (returns a value that round-trips / returns an error) of every retained id is the same for 2 seeds. non-trivial = registry with >= 1 generic family of >= 2 instantiations; distinct by registry hash.",
    assumptions: &["coincidence-freedom is decided from the source program (simulator) or conservatively on the registry (Polkadot)"],
    required_counters: &["permutations_compared", "subregistries_compared", "items_compared", "descriptions_compared", "dedup_partitions_compared", "families_with_renames", "two_version_registries", "four_parameter_gallery_programs", "cases_with_four_parameter_definitions"],
    floor: (200, 4000),
    shards: (16, 16),
};

fn outcome(r: &PortableRegistry, d: &SDesc) -> Result<(String, CModel), String> {
    let (g, _) = generate_model(r, d);
    g.map(|g| (g.tokens.to_string(), g.cm))
}

fn dedup_partition(r: &PortableRegistry) -> Option<BTreeMap<u32, Vec<String>>> {
    let mut r2 = r.clone();
    match guard(|| scale_typegen::utils::ensure_unique_type_paths(&mut r2)) {
        Ok(Ok(())) => Some(r2.types.iter().map(|t| (t.id, t.ty.path.segments.clone())).collect()),
        _ => None,
    }
}

fn example_validity(r: &PortableRegistry, id: u32, seed: u64) -> String {
    match guard(|| scale_value_from_seed(id, r, seed)) {
        Err(p) => format!("panic:{}", p.signature()),
        Ok(Err(_)) => "err".into(),
        Ok(Ok(v)) => {
            let mut b = Vec::new();
            match guard(|| scale_value::scale::encode_as_type(&v, id, r, &mut b).is_ok()) {
                Ok(true) => "valid".into(),
                Ok(false) => "unencodable".into(),
                Err(_) => "encode-panic".into(),
            }
        }
    }
}

pub fn judge(ctx: &mut Ctx, r: &PortableRegistry, d: &SDesc, rng: &mut rand_chacha::ChaCha8Rng, replay: &dyn Fn(serde_json::Value) -> serde_json::Value) -> bool {
    let n = r.types.len() as u32;
    let base = outcome(r, d);
    let base_part = dedup_partition(r);
    // (a) permutations
    let n_perm = ctx.tier.pick(6, 10);
    for k in 0..n_perm {
        let mut order: Vec<u32> = (0..n).collect();
        match k {
            0 => order.reverse(),
            1 => {
                // swap the first two entries of every same-path family ("second instantiation first")
                for ids in reg::families(r).values() {
                    if ids.len() >= 2 {
                        order.swap(ids[0] as usize, ids[1] as usize);
                    }
                }
            }
            _ => order.shuffle(rng),
        }
        let (pr, old_to_new) = reg::permute(r, &order);
        let po = outcome(&pr, d);
        ctx.count("permutations_compared", 1);
        match (&base, &po) {
            (Ok((a, _)), Ok((b, _))) => {
                if a != b {
                    // find the first differing item for the report
                    let at = a.chars().zip(b.chars()).position(|(x, y)| x != y).unwrap_or(0);
                    let ctx_a: String = a.chars().skip(at.saturating_sub(80)).take(200).collect();
                    let ctx_b: String = b.chars().skip(at.saturating_sub(80)).take(200).collect();
                    ctx.violation(
                        "C17:tokens-depend-on-entry-order",
                        format!("permutation {k} changes the generated module: `…{ctx_a}…` vs `…{ctx_b}…`"),
                        replay(json!({"order": order})),
                    );
                }
            }
            (Err(a), Err(b)) if a == b => {}
            (a, b) => ctx.violation(
                "C17:outcome-depends-on-entry-order",
                format!("permutation {k}: outcome {:?} vs {:?}", a.as_ref().map(|_| "ok").map_err(|e| e.clone()), b.as_ref().map(|_| "ok").map_err(|e| e.clone())),
                replay(json!({"order": order})),
            ),
        }
        // dedup partition
        if let (Some(bp), Some(pp)) = (&base_part, dedup_partition(&pr)) {
            ctx.count("dedup_partitions_compared", 1);
            // group ids by new path in both, compare as partitions of original ids
            let mut g1: BTreeMap<&Vec<String>, BTreeSet<u32>> = BTreeMap::new();
            for (id, p) in bp {
                if p.len() >= 2 {
                    g1.entry(p).or_default().insert(*id);
                }
            }
            let mut g2: BTreeMap<&Vec<String>, BTreeSet<u32>> = BTreeMap::new();
            let new_to_old: BTreeMap<u32, u32> = old_to_new.iter().map(|(o, nw)| (*nw, *o)).collect();
            for (id, p) in &pp {
                if p.len() >= 2 {
                    g2.entry(p).or_default().insert(new_to_old[id]);
                }
            }
            let s1: BTreeSet<&BTreeSet<u32>> = g1.values().collect();
            let s2: BTreeSet<&BTreeSet<u32>> = g2.values().collect();
            if bp.iter().any(|(id, p)| r.types[*id as usize].ty.path.segments != *p) {
                ctx.count("families_with_renames", 1);
            }
            if s1 != s2 {
                ctx.violation(
                    "C17:dedup-groups-depend-on-entry-order",
                    format!("permutation {k}: ensure_unique_type_paths groups the entries differently"),
                    replay(json!({"order": order})),
                );
            }
        }
    }
    // (b) restriction
    let n_sub = ctx.tier.pick(3, 5);
    for _ in 0..n_sub {
        let k = rng.gen_range(1..=4.min(n as usize));
        let roots: BTreeSet<u32> = (0..k).map(|_| rng.gen_range(0..n)).collect();
        let mut sub = r.clone();
        let map = sub.retain(|id| roots.contains(&id));
        ctx.count("subregistries_compared", 1);
        let so = outcome(&sub, d);
        // with recursive registrations the reach of a root legitimately depends on which
        // instantiations of it are present, so item equality under restriction is only demanded
        // for settings without them
        let has_recursive = d.specific.iter().any(|s| s.recursive);
        if has_recursive {
            ctx.count("restrictions_skipped_recursive_settings", 1);
        } else if let (Ok((_, full)), Ok((_, part))) = (&base, &so) {
            for (p, item) in &part.items {
                ctx.count("items_compared", 1);
                match full.items.get(p) {
                    None => ctx.violation("C17:item-only-in-subregistry", format!("{} is emitted from the sub-registry but not from the full registry", p.join("::")), replay(json!({"roots": roots}))),
                    Some(f) => {
                        if f.tokens != item.tokens {
                            ctx.violation(
                                "C17:item-depends-on-unrelated-entries",
                                format!("{}: full registry emits `{}`, the sub-registry `{}`", p.join("::"), f.tokens.chars().take(300).collect::<String>(), item.tokens.chars().take(300).collect::<String>()),
                                replay(json!({"roots": roots})),
                            );
                        }
                    }
                }
            }
        } else if base.is_ok() != so.is_ok() {
            // a sub-registry of a registry that generates must generate too (the converse need
            // not hold: the conflicting family may have been dropped)
            if base.is_ok() {
                ctx.violation("C17:subregistry-fails", format!("full registry generates, sub-registry fails: {:?}", so.err()), replay(json!({"roots": roots})));
            }
        }
        for (old, new) in &map {
            let a = guard(|| type_description(*old, r, false)).ok().map(|x| x.map_err(|e| e.to_string()));
            let b = guard(|| type_description(*new, &sub, false)).ok().map(|x| x.map_err(|e| e.to_string()));
            ctx.count("descriptions_compared", 1);
            if a != b {
                ctx.violation("C17:description-depends-on-unrelated-entries", format!("id {old} -> {new}: descriptions differ"), replay(json!({"roots": roots})));
            }
            for seed in [1u64, 77] {
                if example_validity(r, *old, seed) != example_validity(&sub, *new, seed) {
                    ctx.violation("C17:example-validity-depends-on-unrelated-entries", format!("id {old} -> {new} seed {seed}"), replay(json!({"roots": roots})));
                }
            }
        }
    }
    reg::families(r).values().any(|v| v.len() >= 2)
}

pub fn run(ctx: &mut Ctx) {
    if ctx.mine(0) {
        // hand-written: four parameters, one member using two of them, two more unused
        for (i, prog) in crate::prog::many_params_gallery().iter().enumerate() {
            let out = sim::simulate(prog);
            let mut rng = ctx.rng("c17-gallery", i as u64);
            let d = SDesc::default();
            ctx.begin_case(&format!("c17 four-parameter gallery {i}"));
            let regj = reg::to_json(&out.registry);
            let dj = serde_json::to_value(&d).unwrap();
            let src = prog.render_source("TypeInfo");
            let nt = judge(ctx, &out.registry, &d, &mut rng, &|extra| json!({"kind": "c17", "registry": regj, "sdesc": dj, "source": src, "transform": extra}));
            ctx.case(reg::fingerprint(&out.registry), nt);
            ctx.count("four_parameter_gallery_programs", 1);
        }
    }
    let n = ctx.tier.pick(4000u64, 80_000u64);
    for case in 0..n {
        if !ctx.mine(case) {
            continue;
        }
        let mut rng = ctx.rng("c17", case);
        let mut cfg = GenCfg::default();
        cfg.max_defs = 6;
        cfg.max_insts = 3;
        if case % 4 == 2 {
            // definitions with four parameters: a member can use two of them while two more stay
            // unused (bookkeeping of the unused ones that follows the *order of use* - which is by
            // concrete type id, i.e. by numbering - shows only there)
            cfg.max_params = 4;
            ctx.count("cases_with_four_parameter_definitions", 1);
        }
        let prog = ProgGen::new(&mut rng, cfg).gen_program();
        let out = sim::simulate(&prog);
        let noncf: BTreeSet<u32> = sim::cf_source(&prog, &out).iter().filter(|(_, x)| x.is_some()).map(|(i, _)| *i).collect();
        if !noncf.is_empty() || !reg::tainted_by_coincidence(&out.registry, &noncf).is_empty() {
            ctx.count("skipped_not_cf", 1);
            continue;
        }
        let mut d = SDesc::default();
        d.root = pick_root(&mut rng, &out.registry);
        if case % 2 == 1 {
            // settings whose effect depends on reachability: recursive and specific registrations
            let paths: Vec<String> = crate::settingsgen::generated_paths(&out.registry).into_iter().filter(|p| p[0] != "bitvec").map(|p| p.join("::")).collect();
            if !paths.is_empty() {
                for k in 0..rng.gen_range(1..=3) {
                    d.specific.push(crate::sdesc::SpecificDerive {
                        path: paths.choose(&mut rng).unwrap().clone(),
                        derives: vec![format!("::r{k}::D")],
                        attrs: vec![],
                        recursive: rng.gen_bool(0.8),
                    });
                }
                ctx.count("cases_with_recursive_derives", 1);
            }
        }
        ctx.begin_case(&format!("c17 case {case}"));
        let regj = reg::to_json(&out.registry);
        let dj = serde_json::to_value(&d).unwrap();
        let src = prog.render_source("TypeInfo");
        let nt = judge(ctx, &out.registry, &d, &mut rng, &|extra| json!({"kind": "c17", "registry": regj, "sdesc": dj, "source": src, "transform": extra}));
        ctx.case(reg::fingerprint(&out.registry), nt);
        if ctx.res.samples.len() < 2 && nt {
            ctx.sample(json!({"source": src.lines().skip(3).take(14).collect::<Vec<_>>(), "entries": out.registry.types.len()}));
        }
    }
    // "two versions of one crate": same paths, different shapes - where the de-duplication clause
    // (same shape groups under every permutation, same outcome of generation) has something to say
    let n_tv = ctx.tier.pick(1200u64, 24_000u64);
    for case in 0..n_tv {
        if !ctx.mine(case) {
            continue;
        }
        let mut rng = ctx.rng("c17-two-versions", case);
        let mut cfg = GenCfg::default();
        cfg.max_defs = 4;
        cfg.max_insts = 2;
        let p1 = ProgGen::new(&mut rng, cfg).gen_program();
        let mut p2 = p1.clone();
        let what = crate::families::edit_program(&mut rng, &mut p2);
        let (p1, p2) = if case % 2 == 1 { (p2, p1) } else { (p1, p2) };
        let (o1, o2) = (sim::simulate(&p1), sim::simulate(&p2));
        let merged = crate::families::merge(&o1.registry, &o2.registry);
        let off = o1.registry.types.len() as u32;
        let mut noncf: BTreeSet<u32> = sim::cf_source(&p1, &o1).iter().filter(|(_, x)| x.is_some()).map(|(i, _)| *i).collect();
        noncf.extend(sim::cf_source(&p2, &o2).iter().filter(|(_, x)| x.is_some()).map(|(i, _)| *i + off));
        if !noncf.is_empty() || !reg::tainted_by_coincidence(&merged, &noncf).is_empty() {
            ctx.count("skipped_not_cf", 1);
            continue;
        }
        let mut d = SDesc::default();
        d.root = pick_root(&mut rng, &merged);
        ctx.begin_case(&format!("c17 two-versions {case}: {what}"));
        let regj = reg::to_json(&merged);
        let dj = serde_json::to_value(&d).unwrap();
        let nt = judge(ctx, &merged, &d, &mut rng, &|extra| json!({"kind": "c17", "registry": regj, "sdesc": dj, "source": what, "transform": extra}));
        ctx.case(reg::fingerprint(&merged), nt);
        ctx.count("two_version_registries", 1);
    }
    let polka = reg::load_polkadot();
    let n_p = ctx.tier.pick(16u64, 200u64);
    for case in 0..n_p {
        if !ctx.mine(case) {
            continue;
        }
        let mut rng = ctx.rng("c17-polkadot", case);
        let mut r = polka.clone();
        let k = rng.gen_range(1..=6);
        let roots: BTreeSet<u32> = (0..k).map(|_| rng.gen_range(0..polka.types.len() as u32)).collect();
        r.retain(|id| roots.contains(&id));
        let noncf: BTreeSet<u32> = r.types.iter().filter(|t| reg::non_cf_reason(&r, t.id).is_some()).map(|t| t.id).collect();
        if !noncf.is_empty() || !reg::tainted_by_coincidence(&r, &noncf).is_empty() || r.types.len() > 150 {
            ctx.count("skipped_not_cf", 1);
            continue;
        }
        let mut d = SDesc::default();
        d.root = "root".into();
        ctx.begin_case(&format!("c17 polkadot {case}"));
        let regj = reg::to_json(&r);
        let dj = serde_json::to_value(&d).unwrap();
        let nt = judge(ctx, &r, &d, &mut rng, &|extra| json!({"kind": "c17", "registry": regj, "sdesc": dj, "transform": extra}));
        ctx.case(reg::fingerprint(&r), nt);
        ctx.count("polkadot_subregistries", 1);
    }
}

pub fn replay(ctx: &mut Ctx, v: &serde_json::Value) {
    let r = reg::from_json(&v["registry"]);
    let d: SDesc = serde_json::from_value(v["sdesc"].clone()).expect("sdesc");
    let mut rng = ctx.rng("replay", 0);
    let vv = v.clone();
    let nt = judge(ctx, &r, &d, &mut rng, &move |_| vv.clone());
    ctx.case(0, nt);
}

//! Declarative settings descriptor: the monitors compute their expectations from this value, and
//! `build()` turns it into the real `TypeGeneratorSettings` through the public builder API.

use scale_typegen::typegen::settings::substitutes::absolute_path;
use scale_typegen::typegen::settings::AllocCratePath;
use scale_typegen::{DerivesRegistry, TypeGeneratorSettings, TypeSubstitutes};
use serde::{Deserialize, Serialize};

#[derive(Clone, Debug, PartialEq, Eq, Serialize, Deserialize)]
pub struct SpecificDerive {
    pub path: String,
    pub derives: Vec<String>,
    pub attrs: Vec<String>,
    pub recursive: bool,
}

#[derive(Clone, Debug, PartialEq, Eq, Serialize, Deserialize)]
pub struct SDesc {
    pub root: String,
    /// None = `AllocCratePath::Std`
    pub alloc: Option<String>,
    pub docs: bool,
    pub codec_attrs: bool,
    pub compact_path: Option<String>,
    pub bits_path: Option<String>,
    pub compact_as_path: Option<String>,
    pub global_derives: Vec<String>,
    pub global_attrs: Vec<String>,
    pub specific: Vec<SpecificDerive>,
    /// (from, to) in registration order
    pub substitutes: Vec<(String, String)>,
    /// how the rules are registered: 0 = one `insert` per rule, 1 = ONE `extend` call with all of
    /// them, 2 = one `insert_if_not_exists` per rule, 3 = the longest source path by `insert` and then
    /// ONE `extend` with the rest, 4 = `insert`s followed by an empty `extend` (the source paths
    /// are distinct, so all must give the same rule set)
    #[serde(default)]
    pub register_via: u8,
    /// build the settings value through `TypeGeneratorSettings::new()` and its builder methods
    /// (`type_mod_name`, `should_gen_docs`, `compact_type_path`, `substitute`, ...) wherever one
    /// exists, instead of writing the struct's fields
    #[serde(default)]
    pub via_builders: bool,
    /// register the for-all derives and attributes AFTER the per-type ones (the resulting sets are
    /// the same; what a registration sees of the others is not)
    #[serde(default)]
    pub globals_last: bool,
}

pub const LSB0_TARGET: &str = "::vrt::bits::Lsb0";
pub const MSB0_TARGET: &str = "::vrt::bits::Msb0";

impl Default for SDesc {
    fn default() -> Self {
        SDesc {
            root: "root".into(),
            alloc: None,
            docs: true,
            codec_attrs: true,
            compact_path: Some("::parity_scale_codec::Compact".into()),
            bits_path: Some("::vrt::bits::DecodedBits".into()),
            compact_as_path: None,
            global_derives: vec![],
            global_attrs: vec![],
            specific: vec![],
            substitutes: vec![
                ("bitvec::order::Lsb0".into(), LSB0_TARGET.into()),
                ("bitvec::order::Msb0".into(), MSB0_TARGET.into()),
            ],
            register_via: 0,
            via_builders: false,
            globals_last: false,
        }
    }
}

pub fn p(s: &str) -> syn::Path {
    // paths without segments cannot be written down, only constructed
    if s == "<empty>" {
        return syn::Path { leading_colon: None, segments: syn::punctuated::Punctuated::new() };
    }
    if s == "<::empty>" {
        return syn::Path { leading_colon: Some(Default::default()), segments: syn::punctuated::Punctuated::new() };
    }
    // `a::B(X, Y)`: syn does not parse parenthesised arguments on arbitrary paths, build them
    if let (Some(open), true) = (s.find('('), s.trim_end().ends_with(')')) {
        let mut base: syn::Path = syn::parse_str(&s[..open]).unwrap_or_else(|e| panic!("path `{s}`: {e}"));
        let inner = &s[open + 1..s.trim_end().len() - 1];
        let inputs: syn::punctuated::Punctuated<syn::Type, syn::Token![,]> =
            syn::parse::Parser::parse_str(syn::punctuated::Punctuated::parse_terminated, inner)
                .unwrap_or_else(|e| panic!("arguments of `{s}`: {e}"));
        base.segments.last_mut().unwrap().arguments =
            syn::PathArguments::Parenthesized(syn::ParenthesizedGenericArguments {
                paren_token: Default::default(),
                inputs,
                output: syn::ReturnType::Default,
            });
        return base;
    }
    syn::parse_str(s).unwrap_or_else(|e| panic!("path `{s}`: {e}"))
}

pub fn attr(s: &str) -> syn::Attribute {
    let item: syn::ItemStruct = syn::parse_str(&format!("{s} struct X;")).unwrap_or_else(|e| panic!("attr `{s}`: {e}"));
    item.attrs.into_iter().next().expect("one attribute")
}

impl SDesc {
    pub fn alloc_str(&self) -> String {
        self.alloc.clone().unwrap_or_else(|| "::std".to_string())
    }

    /// Build the real settings; substitutes whose source path is not in `known_paths` are still
    /// inserted (validation is a separate property).
    pub fn build(&self) -> TypeGeneratorSettings {
        let mut derives = DerivesRegistry::new();
        if !self.globals_last {
            derives.add_derives_for_all(self.global_derives.iter().map(|d| p(d)));
            derives.add_attributes_for_all(self.global_attrs.iter().map(|a| attr(a)));
        }
        for s in &self.specific {
            let tp: syn::TypePath = syn::parse_str(&s.path).unwrap();
            if !s.derives.is_empty() {
                derives.add_derives_for(tp.clone(), s.derives.iter().map(|d| p(d)), s.recursive);
            }
            if !s.attrs.is_empty() {
                derives.add_attributes_for(tp.clone(), s.attrs.iter().map(|a| attr(a)), s.recursive);
            }
        }
        if self.globals_last {
            derives.add_derives_for_all(self.global_derives.iter().map(|d| p(d)));
            derives.add_attributes_for_all(self.global_attrs.iter().map(|a| attr(a)));
        }
        let mut substitutes = TypeSubstitutes::new();
        // a repeated source path (last one wins under insert/extend) keeps the plain `insert`
        let distinct = {
            let mut keys: Vec<String> = self.substitutes.iter().map(|(f, _)| strip_generics(f)).collect();
            keys.sort();
            keys.windows(2).all(|w| w[0] != w[1])
        };
        match (self.register_via, distinct) {
            (1, true) => substitutes
                .extend(self.substitutes.iter().map(|(from, to)| (p(from), absolute_path(p(to)).expect("absolute target"))))
                .expect("valid substitutes"),
            (2, true) => {
                for (from, to) in &self.substitutes {
                    substitutes.insert_if_not_exists(p(from), absolute_path(p(to)).expect("absolute target")).expect("valid substitute");
                }
            }
            (3, true) if !self.substitutes.is_empty() => {
                // a history: the rule with the longest source path by `insert`, then ONE `extend`
                // with the others (bookkeeping that `extend` rebuilds from its own batch shows here)
                let first = (0..self.substitutes.len()).max_by_key(|&i| self.substitutes[i].0.matches("::").count()).unwrap();
                let (from, to) = &self.substitutes[first];
                substitutes.insert(p(from), absolute_path(p(to)).expect("absolute target")).expect("valid substitute");
                substitutes
                    .extend(
                        self.substitutes
                            .iter()
                            .enumerate()
                            .filter(|(i, _)| *i != first)
                            .map(|(_, (from, to))| (p(from), absolute_path(p(to)).expect("absolute target"))),
                    )
                    .expect("valid substitutes");
            }
            (4, _) => {
                // every rule by `insert`, then an `extend` with nothing
                for (from, to) in &self.substitutes {
                    substitutes.insert(p(from), absolute_path(p(to)).expect("absolute target")).expect("valid substitute");
                }
                substitutes.extend(std::iter::empty()).expect("empty extend");
            }
            _ => {
                for (from, to) in &self.substitutes {
                    substitutes.insert(p(from), absolute_path(p(to)).expect("absolute target")).expect("valid substitute");
                }
            }
        }
        if self.via_builders {
            let mut s = TypeGeneratorSettings::new().type_mod_name(&self.root).should_gen_docs(self.docs);
            if let Some(x) = &self.bits_path {
                s = s.decoded_bits_type_path(p(x));
            }
            if let Some(x) = &self.compact_as_path {
                s = s.compact_as_type_path(p(x));
            }
            if let Some(x) = &self.compact_path {
                s = s.compact_type_path(p(x));
            }
            if self.codec_attrs {
                s = s.insert_codec_attributes();
            }
            // global derives through the settings' own builder, the rest of the registry as built above
            let mut rest = DerivesRegistry::new();
            rest.add_attributes_for_all(self.global_attrs.iter().map(|a| attr(a)));
            for sp in &self.specific {
                let tp: syn::TypePath = syn::parse_str(&sp.path).unwrap();
                if !sp.derives.is_empty() {
                    rest.add_derives_for(tp.clone(), sp.derives.iter().map(|d| p(d)), sp.recursive);
                }
                if !sp.attrs.is_empty() {
                    rest.add_attributes_for(tp.clone(), sp.attrs.iter().map(|a| attr(a)), sp.recursive);
                }
            }
            s.derives = rest;
            s = s.add_derives_for_all(self.global_derives.iter().map(|d| p(d)));
            if self.register_via == 0 {
                for (from, to) in &self.substitutes {
                    s = s.substitute(p(from), p(to));
                }
            } else {
                s.substitutes = substitutes;
            }
            s.alloc_crate_path = match &self.alloc {
                None => AllocCratePath::Std,
                Some(a) => AllocCratePath::Custom(p(a)),
            };
            return s;
        }
        TypeGeneratorSettings {
            types_mod_ident: syn::parse_str(&self.root).unwrap(),
            should_gen_docs: self.docs,
            derives,
            substitutes,
            decoded_bits_type_path: self.bits_path.as_deref().map(p),
            compact_as_type_path: self.compact_as_path.as_deref().map(p),
            compact_type_path: self.compact_path.as_deref().map(p),
            insert_codec_attributes: self.codec_attrs,
            alloc_crate_path: match &self.alloc {
                None => AllocCratePath::Std,
                Some(a) => AllocCratePath::Custom(p(a)),
            },
        }
    }

    pub fn is_substituted(&self, path: &[String]) -> bool {
        let joined = path.join("::");
        self.substitutes.iter().any(|(from, _)| strip_generics(from) == joined)
    }
}

/// `a::b::C<X, Y>` -> `a::b::C`
pub fn strip_generics(s: &str) -> String {
    let pth = p(s);
    pth.segments.iter().map(|s| s.ident.to_string()).collect::<Vec<_>>().join("::")
}

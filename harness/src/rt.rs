//! Artifact tier (DESIGN.md 4.6): write generated modules into a scratch crate, compile it with
//! rustc + parity-scale-codec derives, run the binary on encodings. rustc is a runtime
//! environment for the artifact here, not a prover.

use crate::ev::verif_dir;
use std::collections::BTreeMap;
use std::io::Write;
use std::path::PathBuf;
use std::process::{Command, Stdio};

pub struct ArtCase {
    pub name: String,
    /// tokens of the generated root module (`pub mod root { .. }`), possibly with extra items
    pub module: String,
    /// key -> type expression valid inside the case module (root-rooted paths)
    pub types: Vec<(u32, String)>,
    /// extra functions placed in the case module (used by C18)
    pub extra: String,
}

pub struct Built {
    pub dir: PathBuf,
    pub exe: Option<PathBuf>,
    /// case index -> rustc error lines that point into that case
    pub failed: BTreeMap<usize, Vec<String>>,
    /// errors that could not be attributed to a case
    pub other_errors: Vec<String>,
    pub build_secs: f64,
}

fn case_source(c: &ArtCase) -> String {
    let mut s = String::new();
    s.push_str("#![allow(warnings, clippy::all)]\n");
    s.push_str(&c.module);
    s.push_str("\npub fn rt(key: u32, b: &[u8]) -> String {\n    match key {\n");
    for (k, t) in &c.types {
        s.push_str(&format!("        {k} => ::vrt::roundtrip::<{t}>(b),\n"));
    }
    s.push_str("        _ => \"err unknown key\".to_string(),\n    }\n}\n");
    s.push_str(&c.extra);
    s
}

fn stub_source() -> String {
    "pub fn rt(_key: u32, _b: &[u8]) -> String { \"err excluded\".to_string() }\npub fn extra(_key: u32, _b: &[u8]) -> String { \"err excluded\".to_string() }\n".into()
}

pub fn target_dir(slot: usize) -> PathBuf {
    verif_dir().join(".scratch").join(format!("art-target-{slot}"))
}

fn write_crate(dir: &PathBuf, cases: &[ArtCase], stubbed: &[usize], has_extra: bool) -> std::io::Result<()> {
    std::fs::create_dir_all(dir.join("src"))?;
    std::fs::write(
        dir.join("Cargo.toml"),
        format!(
            "[package]\nname = \"artifact\"\nversion = \"0.1.0\"\nedition = \"2021\"\npublish = false\n\n[workspace]\n\n[dependencies]\nparity-scale-codec = {{ version = \"3.6.12\", features = [\"derive\"] }}\nvrt = {{ path = \"{}\" }}\n\n[profile.dev]\nopt-level = 0\ndebug = false\nincremental = false\n",
            verif_dir().join("rt_support").display()
        ),
    )?;
    std::fs::copy("/repo/Cargo.lock", dir.join("Cargo.lock"))?;
    let mut main = String::from("#![allow(warnings)]\n#![recursion_limit = \"512\"]\n");
    for i in 0..cases.len() {
        main.push_str(&format!("mod case_{i};\n"));
    }
    main.push_str("fn main() {\n    use std::io::BufRead;\n    let stdin = std::io::stdin();\n    for line in stdin.lock().lines() {\n        let line = line.unwrap();\n        let mut it = line.split(' ');\n        let kind = it.next().unwrap_or(\"\");\n        let case: usize = it.next().and_then(|s| s.parse().ok()).unwrap_or(usize::MAX);\n        let key: u32 = it.next().and_then(|s| s.parse().ok()).unwrap_or(u32::MAX);\n        let bytes = ::vrt::unhex(it.next().unwrap_or(\"\"));\n        let out = match (kind, case) {\n");
    for i in 0..cases.len() {
        main.push_str(&format!("            (\"rt\", {i}) => case_{i}::rt(key, &bytes),\n"));
        if has_extra {
            main.push_str(&format!("            (\"extra\", {i}) => case_{i}::extra(key, &bytes),\n"));
        }
    }
    main.push_str("            _ => \"err unknown case\".to_string(),\n        };\n        println!(\"{}\", out.replace('\\n', \" | \"));\n    }\n}\n");
    std::fs::write(dir.join("src/main.rs"), main)?;
    for (i, c) in cases.iter().enumerate() {
        let src = if stubbed.contains(&i) { stub_source() } else { case_source(c) };
        std::fs::write(dir.join(format!("src/case_{i}.rs")), src)?;
    }
    Ok(())
}

fn cargo_build(dir: &PathBuf, slot: usize) -> (bool, String) {
    let out = Command::new("cargo")
        .args(["build", "--offline", "--quiet", "--message-format=json"])
        .current_dir(dir)
        .env("CARGO_TARGET_DIR", target_dir(slot))
        .env("CARGO_NET_OFFLINE", "true")
        .env("RUSTFLAGS", "-Awarnings")
        .output();
    match out {
        Ok(o) => (
            o.status.success(),
            format!("{}\n{}", String::from_utf8_lossy(&o.stdout), String::from_utf8_lossy(&o.stderr)),
        ),
        Err(e) => (false, format!("cannot run cargo: {e}")),
    }
}

fn outermost_file(span: &serde_json::Value) -> String {
    let mut s = span;
    while let Some(e) = s.get("expansion").filter(|e| !e.is_null()) {
        s = &e["span"];
    }
    s["file_name"].as_str().unwrap_or("").to_string()
}

/// Attribute rustc error diagnostics (cargo's JSON messages) to case files by primary span.
fn attribute(output: &str, n: usize) -> (BTreeMap<usize, Vec<String>>, Vec<String>) {
    let mut failed: BTreeMap<usize, Vec<String>> = BTreeMap::new();
    let mut other = Vec::new();
    for line in output.lines() {
        let Ok(v) = serde_json::from_str::<serde_json::Value>(line) else { continue };
        if v["reason"] != "compiler-message" || v["message"]["level"] != "error" {
            continue;
        }
        let m = &v["message"];
        let code = m["code"]["code"].as_str().unwrap_or("E????");
        let text = format!("error[{code}]: {}", m["message"].as_str().unwrap_or(""));
        if text.contains("aborting due to") {
            continue;
        }
        let mut idx = None;
        if let Some(spans) = m["spans"].as_array() {
            for sp in spans.iter().filter(|s| s["is_primary"] == true) {
                for f in [sp["file_name"].as_str().unwrap_or("").to_string(), outermost_file(sp)] {
                    if let Some(rest) = f.strip_prefix("src/case_") {
                        idx = rest.split('.').next().and_then(|s| s.parse::<usize>().ok());
                    }
                }
            }
        }
        match idx {
            Some(i) if i < n => failed.entry(i).or_default().push(text),
            _ => other.push(text),
        }
    }
    (failed, other)
}

/// Build a batch; cases that do not compile are reported and stubbed out, the rest is rebuilt.
pub fn build(cases: &[ArtCase], tag: &str, slot: usize, has_extra: bool) -> Built {
    let dir = verif_dir().join(".scratch").join(format!("art-{}-{tag}", std::process::id()));
    let t0 = std::time::Instant::now();
    let mut failed: BTreeMap<usize, Vec<String>> = BTreeMap::new();
    let mut other_errors = Vec::new();
    let mut exe = None;
    for _round in 0..4 {
        let stubbed: Vec<usize> = failed.keys().copied().collect();
        if let Err(e) = write_crate(&dir, cases, &stubbed, has_extra) {
            other_errors.push(format!("cannot write scratch crate: {e}"));
            break;
        }
        let (ok, stderr) = cargo_build(&dir, slot);
        if ok {
            let p = target_dir(slot).join("debug").join("artifact");
            // keep a private copy: the shared target dir may be rebuilt by the next batch
            let private = dir.join("artifact-bin");
            if std::fs::copy(&p, &private).is_ok() {
                exe = Some(private);
            }
            break;
        }
        let (mut f, o) = attribute(&stderr, cases.len());
        if f.is_empty() && !o.is_empty() {
            // rustc gave no span inside a case file (e.g. E0275 "overflow evaluating the
            // requirement"): find the culprits by building subsets of the remaining cases
            let active: Vec<usize> = (0..cases.len()).filter(|i| !failed.contains_key(i)).collect();
            let mut probes = 0usize;
            let mut culprits: Vec<usize> = Vec::new();
            let mut stack: Vec<Vec<usize>> = vec![active];
            while let Some(subset) = stack.pop() {
                if subset.is_empty() || probes >= 48 {
                    continue;
                }
                probes += 1;
                let stub_now: Vec<usize> = (0..cases.len()).filter(|i| !subset.contains(i)).collect();
                if write_crate(&dir, cases, &stub_now, has_extra).is_err() {
                    break;
                }
                let (ok, _) = cargo_build(&dir, slot);
                if ok {
                    continue;
                }
                if subset.len() == 1 {
                    culprits.push(subset[0]);
                } else {
                    let (l, r) = subset.split_at(subset.len() / 2);
                    stack.push(l.to_vec());
                    stack.push(r.to_vec());
                }
            }
            for c in culprits {
                f.entry(c).or_default().extend(o.iter().cloned());
            }
        }
        if f.is_empty() {
            other_errors.extend(o);
            other_errors.push(stderr.lines().rev().take(12).collect::<Vec<_>>().join(" | "));
            break;
        }
        for (k, v) in f {
            failed.entry(k).or_default().extend(v);
        }
    }
    if exe.is_none() && std::env::var("VERIF_KEEP_SCRATCH").is_ok() {
        // development aid: keep a copy of a crate that did not build
        let keep = dir.with_file_name(format!("{}-failed", dir.file_name().and_then(|s| s.to_str()).unwrap_or("art")));
        let _ = std::process::Command::new("cp").arg("-r").arg(&dir).arg(&keep).output();
    }
    Built { dir, exe, failed, other_errors, build_secs: t0.elapsed().as_secs_f64() }
}

/// Run queries `(kind, case, key, bytes)`; one answer line per query.
pub fn run(b: &Built, queries: &[(&str, usize, u32, Vec<u8>)]) -> Result<Vec<String>, String> {
    let exe = b.exe.as_ref().ok_or("no executable")?;
    let mut child = Command::new(exe)
        .stdin(Stdio::piped())
        .stdout(Stdio::piped())
        .stderr(Stdio::piped())
        .spawn()
        .map_err(|e| format!("spawn artifact: {e}"))?;
    let mut input = String::new();
    for (kind, case, key, bytes) in queries {
        input.push_str(&format!("{kind} {case} {key} {}\n", crate::mon::c01::hex_full(bytes)));
    }
    let mut stdin = child.stdin.take().ok_or("no stdin")?;
    let writer = std::thread::spawn(move || {
        let _ = stdin.write_all(input.as_bytes());
    });
    let out = child.wait_with_output().map_err(|e| format!("wait artifact: {e}"))?;
    let _ = writer.join();
    let lines: Vec<String> = String::from_utf8_lossy(&out.stdout).lines().map(|s| s.to_string()).collect();
    if lines.len() != queries.len() {
        return Err(format!(
            "artifact answered {} of {} queries (status {:?}): {}",
            lines.len(),
            queries.len(),
            out.status,
            String::from_utf8_lossy(&out.stderr).lines().last().unwrap_or("")
        ));
    }
    Ok(lines)
}

pub fn cleanup(b: &Built) {
    if std::env::var("VERIF_KEEP_SCRATCH").is_ok() {
        return; // development aid
    }
    let _ = std::fs::remove_dir_all(&b.dir);
}

/// error code like E0072 from an rustc error line
pub fn error_code(line: &str) -> String {
    line.split('[').nth(1).and_then(|s| s.split(']').next()).unwrap_or("E????").to_string()
}

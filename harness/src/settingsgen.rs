//! Random supported settings for a registry (DESIGN.md 3.1 "supported settings", 3.6).

use crate::reg::is_generated;
use crate::sdesc::*;
use rand::seq::SliceRandom;
use rand::Rng;
use scale_info::PortableRegistry;
use std::collections::BTreeSet;

pub const DERIVE_POOL: [&str; 12] = [
    "Debug",
    "Clone",
    "PartialEq",
    "Eq",
    "::parity_scale_codec::Encode",
    "::parity_scale_codec::Decode",
    "::serde::Serialize",
    "::core::hash::Hash",
    "PartialOrd",
    "Ord",
    "Default",
    "::ext::scale_encode::EncodeAsType",
];

pub const ATTR_POOL: [&str; 8] = [
    "#[allow(dead_code)]",
    "#[codec(crate = ::parity_scale_codec)]",
    "#[serde(rename_all = \"camelCase\")]",
    "#[encode_as_type(crate_path = \"::ext::scale_encode\")]",
    "#[cfg_attr(feature = \"x\", derive(Foo))]",
    "#[must_use]",
    "#[repr(C)]",
    "#[allow(clippy::all)]",
];

pub struct SettingsOpts {
    pub extra_substitutes: bool,
    pub specific_derives: bool,
    pub compact_as: bool,
}

impl Default for SettingsOpts {
    fn default() -> Self {
        SettingsOpts { extra_substitutes: true, specific_derives: true, compact_as: true }
    }
}

pub fn segments_of(reg: &PortableRegistry) -> BTreeSet<String> {
    reg.types.iter().flat_map(|t| t.ty.path.segments.iter().cloned()).collect()
}

pub fn generated_paths(reg: &PortableRegistry) -> Vec<Vec<String>> {
    let mut s = BTreeSet::new();
    for t in &reg.types {
        if is_generated(&t.ty) {
            s.insert(t.ty.path.segments.clone());
        }
    }
    s.into_iter().collect()
}

pub fn pick_root<R: Rng>(rng: &mut R, reg: &PortableRegistry) -> String {
    let segs = segments_of(reg);
    let mut pool: Vec<&str> = vec!["root", "types", "my_types", "runtime_types", "t"];
    pool.shuffle(rng);
    for p in pool {
        if !segs.contains(p) {
            return p.to_string();
        }
    }
    "zz_root_zz".to_string()
}

pub fn random_sdesc<R: Rng>(rng: &mut R, reg: &PortableRegistry, opts: &SettingsOpts) -> SDesc {
    let mut d = SDesc::default();
    d.register_via = rng.gen_range(0..5);
    d.via_builders = rng.gen_bool(0.5);
    d.root = pick_root(rng, reg);
    d.alloc = [None, Some("::alloc".to_string()), Some("::my::alloc_reexport".to_string()), Some("::std".to_string())]
        .choose(rng)
        .unwrap()
        .clone();
    d.docs = rng.gen_bool(0.5);
    d.codec_attrs = true;
    d.compact_path = Some(
        ["::parity_scale_codec::Compact", "::subxt::ext::codec::Compact", "crate::codec::Compact"]
            .choose(rng)
            .unwrap()
            .to_string(),
    );
    d.bits_path =
        Some(["::vrt::bits::DecodedBits", "::subxt::utils::bits::DecodedBits"].choose(rng).unwrap().to_string());
    if opts.compact_as && rng.gen_bool(0.5) {
        d.compact_as_path = Some("::parity_scale_codec::CompactAs".into());
    }
    let nd = rng.gen_range(0..=5);
    let mut pool = DERIVE_POOL.to_vec();
    pool.shuffle(rng);
    d.global_derives = pool[..nd].iter().map(|s| s.to_string()).collect();
    let na = rng.gen_range(0..=2);
    let mut apool = ATTR_POOL.to_vec();
    apool.shuffle(rng);
    d.global_attrs = apool[..na].iter().map(|s| s.to_string()).collect();
    let paths = generated_paths(reg);
    if opts.specific_derives && !paths.is_empty() {
        for _ in 0..rng.gen_range(0..=3) {
            let p = paths.choose(rng).unwrap();
            let mut pool = DERIVE_POOL.to_vec();
            pool.shuffle(rng);
            d.specific.push(SpecificDerive {
                path: p.join("::"),
                derives: pool[..rng.gen_range(0..=3)].iter().map(|s| s.to_string()).collect(),
                attrs: if rng.gen_bool(0.3) { vec![ATTR_POOL.choose(rng).unwrap().to_string()] } else { vec![] },
                recursive: rng.gen_bool(0.4),
            });
        }
    }
    if opts.extra_substitutes && !paths.is_empty() && rng.gen_bool(0.25) {
        let p = paths.choose(rng).unwrap();
        if p.join("::") != "bitvec::order::Lsb0" && p.join("::") != "bitvec::order::Msb0" {
            d.substitutes.push((p.join("::"), format!("::ext::subst::{}", p.last().unwrap())));
        }
    }
    d
}

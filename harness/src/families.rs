//! Same-path family generators for C03/C04 (DESIGN.md 3.6): generic-instantiation families,
//! associated-type (Config trait) families, "two versions of one crate". The small space is
//! enumerable by index (mixed radix) so that shards can split it and a run can complete it.

use crate::prog::*;
use rand::seq::SliceRandom;
use rand::Rng;
use scale_info::{PortableRegistry, PortableType};

fn fld(name: &str, ty: Ty) -> FieldDecl {
    FieldDecl { name: Some(name.to_string()), ty, compact: false, skip: false, docs: vec![] }
}

/// auxiliary generic `G<X> { x: X }` (def 0) and the family definition `Foo` (def 1)
fn base_program(foo_params: Vec<ParamDecl>, foo_fields: Vec<Ty>, as_enum: bool, sibling_names: bool) -> Program {
    let g = Def {
        module: vec!["m".into()],
        name: "G".into(),
        params: vec![ParamDecl { name: "X".into(), skipped: false, cfg: false, uint: false }],
        kind: DefKind::Struct(Style::Named, vec![fld("x", Ty::Param(0))]),
        docs: vec![],
    };
    let names = ["a", "b", "c", "d"];
    let fields: Vec<FieldDecl> = foo_fields.into_iter().enumerate().map(|(i, t)| fld(names[i], t)).collect();
    let kind = if as_enum {
        DefKind::Enum(vec![
            VariantDecl { name: "V".into(), index: None, style: Style::Named, fields, docs: vec![] },
            VariantDecl { name: "W".into(), index: None, style: Style::Unit, fields: vec![], docs: vec![] },
        ])
    } else {
        DefKind::Struct(Style::Named, fields)
    };
    let mut foo = Def { module: vec!["m".into()], name: "Foo".into(), params: foo_params, kind, docs: vec![] };
    make_compilable(&mut foo, 1);
    let mut defs = vec![g, foo];
    if sibling_names {
        // hostile siblings in the same module: names the 1..k scheme would produce
        for n in ["Foo1", "Foo2", "Foo11"] {
            defs.push(Def {
                module: vec!["m".into()],
                name: n.into(),
                params: vec![],
                kind: DefKind::Struct(Style::Named, vec![fld("z", Ty::Prim(Prim::Bool))]),
                docs: vec![],
            });
        }
    }
    Program { krate: "krate".into(), defs, markers: vec![], roots: vec![], prefix: vec![] }
}

/// Field-type pool over leaves `leaves` (DESIGN.md 6 C03 W).
fn pool(leaves: &[Ty], nparams: usize) -> Vec<Ty> {
    let mut p: Vec<Ty> = leaves.to_vec();
    for l in leaves {
        p.push(Ty::Vec(l.clone().b()));
        p.push(Ty::Option(l.clone().b()));
        p.push(Ty::Def(0, vec![l.clone()]));
    }
    for (i, a) in leaves.iter().enumerate() {
        for (j, b) in leaves.iter().enumerate() {
            if i != j {
                p.push(Ty::Tuple(vec![a.clone(), b.clone()]));
            }
        }
    }
    p.push(Ty::Vec(Ty::Def(1, (0..nparams).map(Ty::Param).collect()).b()));
    for l in leaves.iter().take(3) {
        p.push(Ty::Option(Ty::Vec(l.clone().b()).b()));
    }
    // transparent wrappers: the recorded type name is `Box<T>`, the recorded type is T's
    for l in leaves.iter().take(3) {
        p.push(Ty::Box(l.clone().b()));
        p.push(Ty::Option(Ty::Box(l.clone().b()).b()));
    }
    p
}

const ARGS: [Ty; 3] = [Ty::Prim(Prim::U8), Ty::Prim(Prim::U32), Ty::Prim(Prim::Bool)];

/// ordered selections of 2..=3 distinct argument indices out of 3
fn member_orders() -> Vec<Vec<usize>> {
    let mut out = Vec::new();
    for a in 0..3 {
        for b in 0..3 {
            if a != b {
                out.push(vec![a, b]);
                for c in 0..3 {
                    if c != a && c != b {
                        out.push(vec![a, b, c]);
                    }
                }
            }
        }
    }
    out
}

pub struct Space {
    pub kind: &'static str,
    pub size: u64,
}

/// Mode A1: one parameter, struct, 1..=3 fields from the pool, every ordered member selection.
pub fn generic1_size() -> u64 {
    let p = pool(&[Ty::Prim(Prim::U8), Ty::Prim(Prim::U32), Ty::Param(0)], 1).len() as u64;
    (p + p * p + p * p * p) * member_orders().len() as u64
}

pub fn generic1_case(mut idx: u64) -> Program {
    let orders = member_orders();
    let pl = pool(&[Ty::Prim(Prim::U8), Ty::Prim(Prim::U32), Ty::Param(0)], 1);
    let p = pl.len() as u64;
    let ord = &orders[(idx % orders.len() as u64) as usize];
    idx /= orders.len() as u64;
    let (k, mut rest) = if idx < p {
        (1, idx)
    } else if idx < p + p * p {
        (2, idx - p)
    } else {
        (3, idx - p - p * p)
    };
    let mut fields = Vec::new();
    for _ in 0..k {
        fields.push(pl[(rest % p) as usize].clone());
        rest /= p;
    }
    let mut prog = base_program(vec![ParamDecl { name: "T".into(), skipped: false, cfg: false, uint: false }], fields, false, false);
    prog.roots = ord.iter().map(|a| Ty::Def(1, vec![ARGS[*a].clone()])).collect();
    prog
}

const ASSOC_CHOICES: [fn() -> Ty; 5] = [
    || Ty::Prim(Prim::U8),
    || Ty::Prim(Prim::U32),
    || Ty::Vec(Box::new(Ty::Prim(Prim::U8))),
    || Ty::Option(Box::new(Ty::Prim(Prim::U8))),
    || Ty::Tuple(vec![Ty::Prim(Prim::U8), Ty::Prim(Prim::U32)]),
];

/// Mode B: `Foo<T: Cfg>` with 1..=2 fields over {u8, T::A0, T::A1, wrappers}, markers M0/M1 with
/// every pair of A0 choices, parameter skipped or not, both orders.
pub fn assoc_size() -> u64 {
    let p = pool(&[Ty::Prim(Prim::U8), Ty::Assoc(0, 0), Ty::Assoc(0, 1)], 1).len() as u64;
    (p + p * p) * 25 * 2 * 2
}

pub fn assoc_case(mut idx: u64) -> Program {
    let pl = pool(&[Ty::Prim(Prim::U8), Ty::Assoc(0, 0), Ty::Assoc(0, 1)], 1);
    let p = pl.len() as u64;
    let rev = idx % 2 == 1;
    idx /= 2;
    let skipped = idx % 2 == 1;
    idx /= 2;
    let a0 = (idx % 5) as usize;
    idx /= 5;
    let a1 = (idx % 5) as usize;
    idx /= 5;
    let (k, mut rest) = if idx < p { (1, idx) } else { (2, idx - p) };
    let mut fields = Vec::new();
    for _ in 0..k {
        fields.push(pl[(rest % p) as usize].clone());
        rest /= p;
    }
    let mut prog = base_program(vec![ParamDecl { name: "T".into(), skipped, cfg: true, uint: false }], fields, false, false);
    prog.markers = vec![
        Marker { assoc: vec![ASSOC_CHOICES[a0](), Ty::Prim(Prim::U32)] },
        Marker { assoc: vec![ASSOC_CHOICES[a1](), Ty::Prim(Prim::U32)] },
    ];
    prog.roots = if rev {
        vec![Ty::Def(1, vec![Ty::Marker(1)]), Ty::Def(1, vec![Ty::Marker(0)])]
    } else {
        vec![Ty::Def(1, vec![Ty::Marker(0)]), Ty::Def(1, vec![Ty::Marker(1)])]
    };
    prog
}

/// Random larger family (two parameters, enums, sibling names, 2..=4 members).
pub fn random_family<R: Rng>(rng: &mut R) -> Program {
    let nparams = rng.gen_range(1..=2);
    let assoc = rng.gen_bool(0.3);
    let mut leaves = vec![Ty::Prim(Prim::U8), Ty::Prim(Prim::U32)];
    let params: Vec<ParamDecl> = (0..nparams)
        .map(|i| {
            let cfg = assoc && i == 0;
            ParamDecl { name: ["T", "U"][i].into(), skipped: cfg && rng.gen_bool(0.5), cfg, uint: false }
        })
        .collect();
    for (i, p) in params.iter().enumerate() {
        if p.cfg {
            leaves.push(Ty::Assoc(i, 0));
            leaves.push(Ty::Assoc(i, 1));
        } else {
            leaves.push(Ty::Param(i));
        }
    }
    let pl = pool(&leaves, nparams);
    let k = rng.gen_range(1..=4);
    let fields: Vec<Ty> = (0..k).map(|_| pl.choose(rng).unwrap().clone()).collect();
    let mut prog = base_program(params.clone(), fields, rng.gen_bool(0.3), rng.gen_bool(0.4));
    prog.markers = vec![
        Marker { assoc: vec![ASSOC_CHOICES[rng.gen_range(0..5)](), ASSOC_CHOICES[rng.gen_range(0..5)]()] },
        Marker { assoc: vec![ASSOC_CHOICES[rng.gen_range(0..5)](), ASSOC_CHOICES[rng.gen_range(0..5)]()] },
    ];
    let closed = [
        Ty::Prim(Prim::U8),
        Ty::Prim(Prim::U32),
        Ty::Prim(Prim::Bool),
        Ty::Str,
        Ty::Vec(Ty::Prim(Prim::U8).b()),
        Ty::Def(0, vec![Ty::Prim(Prim::U8)]),
    ];
    let n = rng.gen_range(2..=4);
    for _ in 0..n {
        let args = params
            .iter()
            .map(|p| if p.cfg { Ty::Marker(rng.gen_range(0..2)) } else { closed.choose(rng).unwrap().clone() })
            .collect();
        prog.roots.push(Ty::Def(1, args));
    }
    prog
}

/// Concatenate two registries ("two versions of one crate in one metadata"): ids of the second
/// are shifted.
pub fn merge(a: &PortableRegistry, b: &PortableRegistry) -> PortableRegistry {
    let off = a.types.len() as u32;
    let mut types = a.types.clone();
    for t in &b.types {
        let mut ty = t.ty.clone();
        crate::reg::map_ids(&mut ty, &mut |id| id + off);
        types.push(PortableType { id: t.id + off, ty });
    }
    PortableRegistry { types }
}

/// One small local change somewhere inside a type expression (a wire-visible one): primitive
/// swapped, array length changed, bit store / order changed, compact added or removed, tuple
/// member dropped, Vec <-> array. Returns what was done.
pub fn mutate_ty<R: Rng>(rng: &mut R, t: &mut Ty) -> Option<&'static str> {
    // collect mutable candidate positions by walking with a counter
    fn count(t: &Ty) -> usize {
        let mut n = 0;
        t.walk(&mut |_| n += 1);
        n
    }
    fn nth<'a>(t: &'a mut Ty, k: &mut usize) -> Option<&'a mut Ty> {
        if *k == 0 {
            return Some(t);
        }
        *k -= 1;
        use Ty::*;
        match t {
            Def(_, a) | Tuple(a) => {
                for x in a.iter_mut() {
                    if let Some(r) = nth(x, k) {
                        return Some(r);
                    }
                }
                None
            }
            Vec(x) | VecDeque(x) | Array(x, _) | Option(x) | Box(x) | Cow(x) | BTreeSet(x) | BinaryHeap(x) | Range(x) | RangeInclusive(x) | Phantom(x) | Compact(x) | Alias(_, x) => nth(x, k),
            Result(a, b) | BTreeMap(a, b) => {
                if let Some(r) = nth(a, k) {
                    return Some(r);
                }
                nth(b, k)
            }
            _ => None,
        }
    }
    for attempt in 0..12 {
        // first attempts: aim at a bit sequence / array / compact node if there is one
        let mut specials = std::vec::Vec::new();
        let mut idx = 0usize;
        t.walk(&mut |x| {
            if matches!(x, Ty::BitVec(..) | Ty::Array(..) | Ty::Compact(..)) {
                specials.push(idx);
            }
            idx += 1;
        });
        let mut k = if attempt < 3 && !specials.is_empty() && rng.gen_bool(0.7) { *specials.choose(rng).unwrap() } else { rng.gen_range(0..count(t)) };
        let Some(pos) = nth(t, &mut k) else { continue };
        let what = match pos {
            Ty::Prim(p) if Prim::UINTS.contains(p) => {
                let cur = *p;
                *p = **Prim::UINTS.iter().filter(|q| **q != cur).collect::<std::vec::Vec<_>>().choose(rng).unwrap();
                "changed an unsigned primitive"
            }
            Ty::Prim(p) => {
                *p = if *p == Prim::Bool { Prim::I8 } else { Prim::Bool };
                "changed a primitive"
            }
            Ty::Array(_, n) => {
                *n = if *n == 0 { 1 } else { *n - 1 };
                "changed an array length"
            }
            Ty::BitVec(s, msb) => {
                if rng.gen_bool(0.5) {
                    *s = if *s == Prim::U8 { Prim::U16 } else { Prim::U8 };
                    "changed a bit-sequence store"
                } else {
                    *msb = !*msb;
                    "changed a bit-sequence order"
                }
            }
            Ty::Compact(inner) => {
                let i = (**inner).clone();
                *pos = i;
                "removed a Compact"
            }
            Ty::Tuple(ts) if !ts.is_empty() => {
                ts.pop();
                "dropped a tuple member"
            }
            Ty::Vec(x) => {
                let i = (**x).clone();
                *pos = Ty::Array(i.b(), 2);
                "turned a Vec into an array"
            }
            Ty::Option(x) => {
                let i = (**x).clone();
                *pos = Ty::Result(i.b(), Ty::Prim(Prim::U8).b());
                "turned an Option into a Result"
            }
            Ty::Str => {
                *pos = Ty::Vec(Ty::Prim(Prim::U16).b());
                "turned a String into a Vec<u16>"
            }
            _ => continue,
        };
        return Some(what);
    }
    None
}

/// One random edit of a program (a new crate version): returns a description.
pub fn edit_program<R: Rng>(rng: &mut R, p: &mut Program) -> String {
    let d = rng.gen_range(0..p.defs.len());
    // half of the time: a small local change inside one field type
    if rng.gen_bool(0.5) {
        let def = &mut p.defs[d];
        let fields: std::vec::Vec<&mut FieldDecl> = match &mut def.kind {
            DefKind::Struct(_, fs) => fs.iter_mut().collect(),
            DefKind::Enum(vs) => vs.iter_mut().flat_map(|v| v.fields.iter_mut()).collect(),
        };
        let mut cands: std::vec::Vec<&mut FieldDecl> = fields.into_iter().filter(|f| !f.compact && !f.skip && !matches!(f.ty, Ty::Phantom(_))).collect();
        // prefer fields with rarely generated shapes (bit sequences, arrays, compacts): every
        // arm of a shape comparison deserves its share of edits
        let special: std::vec::Vec<usize> = cands
            .iter()
            .enumerate()
            .filter(|(_, f)| {
                let mut hit = false;
                f.ty.walk(&mut |t| {
                    if matches!(t, Ty::BitVec(..) | Ty::Array(..) | Ty::Compact(..)) {
                        hit = true
                    }
                });
                hit
            })
            .map(|(i, _)| i)
            .collect();
        if !cands.is_empty() {
            let i = if !special.is_empty() && rng.gen_bool(0.6) { *special.choose(rng).unwrap() } else { rng.gen_range(0..cands.len()) };
            if let Some(what) = mutate_ty(rng, &mut cands[i].ty) {
                let name = p.defs[d].name.clone();
                make_compilable(&mut p.defs[d], d);
                return format!("{what} in {name}");
            }
        }
    }
    let def = &mut p.defs[d];
    let what;
    match &mut def.kind {
        DefKind::Struct(style, fs) => {
            if fs.is_empty() || rng.gen_bool(0.3) {
                if *style == Style::Unit {
                    *style = Style::Named;
                }
                let named = *style == Style::Named;
                fs.push(FieldDecl {
                    name: named.then(|| "extra".to_string()),
                    ty: Ty::Prim(Prim::U64),
                    compact: false,
                    skip: false,
                    docs: vec![],
                });
                what = "added a field";
            } else {
                let i = rng.gen_range(0..fs.len());
                match rng.gen_range(0..4) {
                    0 => {
                        fs[i].ty = Ty::Prim(Prim::I64);
                        fs[i].compact = false;
                        what = "changed a field type";
                    }
                    // same members, other style: named <-> unnamed
                    3 => {
                        if *style == Style::Named {
                            *style = Style::Unnamed;
                            fs.iter_mut().for_each(|f| f.name = None);
                            what = "made a named struct a tuple struct";
                        } else {
                            *style = Style::Named;
                            fs.iter_mut().enumerate().for_each(|(k, f)| f.name = Some(format!("m{k}")));
                            what = "gave the members of a tuple struct names";
                        }
                    }
                    1 if fs[i].name.is_some() => {
                        fs[i].name = Some("renamed".into());
                        what = "renamed a field";
                    }
                    _ => {
                        fs.remove(i);
                        if fs.is_empty() {
                            *style = Style::Unit;
                        }
                        what = "removed a field";
                    }
                }
            }
        }
        DefKind::Enum(vs) => {
            if vs.is_empty() || rng.gen_bool(0.3) {
                vs.push(VariantDecl { name: "Added".into(), index: Some(200), style: Style::Unit, fields: vec![], docs: vec![] });
                what = "added a variant";
            } else {
                let i = rng.gen_range(0..vs.len());
                match rng.gen_range(0..9) {
                    0 => {
                        vs[i].name = "RenamedVariant".into();
                        what = "renamed a variant";
                    }
                    // the field list of one variant: emptied (unit variant), given a first member,
                    // one member more, one member less - the boundary cases of a field-by-field
                    // comparison
                    3 if !vs[i].fields.is_empty() => {
                        vs[i].fields.clear();
                        vs[i].style = Style::Unit;
                        what = "made a variant a unit variant";
                    }
                    4 => {
                        if vs[i].fields.is_empty() {
                            vs[i].style = Style::Unnamed;
                        }
                        let named = vs[i].style == Style::Named;
                        let n = vs[i].fields.len();
                        vs[i].fields.push(FieldDecl { name: named.then(|| format!("more{n}")), ty: Ty::Prim(Prim::U64), compact: false, skip: false, docs: vec![] });
                        what = "gave a variant one more member";
                    }
                    5 if vs[i].fields.len() >= 2 => {
                        vs[i].fields.pop();
                        what = "dropped the last member of a variant";
                    }
                    6 if !vs[i].fields.is_empty() => {
                        if vs[i].style == Style::Named {
                            vs[i].style = Style::Unnamed;
                            vs[i].fields.iter_mut().for_each(|f| f.name = None);
                            what = "made the members of a variant unnamed";
                        } else {
                            vs[i].style = Style::Named;
                            vs[i].fields.iter_mut().enumerate().for_each(|(k, f)| f.name = Some(format!("m{k}")));
                            what = "gave the members of a variant names";
                        }
                    }
                    7 if vs.len() >= 2 => {
                        // the other version is a strict prefix of this one
                        vs.pop();
                        what = "removed the last variant";
                    }
                    8 if vs.len() >= 2 => {
                        // same variants, same codec indices, another listing order
                        for (k, v) in vs.iter_mut().enumerate() {
                            if v.index.is_none() {
                                v.index = Some(k as u8);
                            }
                        }
                        let j = (i + 1) % vs.len();
                        vs.swap(i, j);
                        what = "listed the variants in another order (indices pinned)";
                    }
                    1 => {
                        // re-index: swap with an unused index
                        let used: Vec<u8> = vs.iter().enumerate().map(|(k, v)| v.index.unwrap_or(k as u8)).collect();
                        let free = (0..=255u8).rev().find(|x| !used.contains(x)).unwrap();
                        for (k, v) in vs.iter_mut().enumerate() {
                            if v.index.is_none() {
                                v.index = Some(k as u8);
                            }
                        }
                        vs[i].index = Some(free);
                        what = "changed a variant index";
                    }
                    _ => {
                        vs.remove(i);
                        for (k, v) in vs.iter_mut().enumerate() {
                            let _ = k;
                            let _ = v;
                        }
                        what = "removed a variant";
                    }
                }
            }
        }
    }
    make_compilable(&mut p.defs[d], d);
    format!("{what} in {}", p.defs[d].name)
}

/// Hand-written "two versions of one crate" pairs on which a shape comparison that forgets the
/// context of an earlier verdict goes wrong: the versions differ only *inside* a non-generic type
/// that a generic one contains, or only in something a generic argument seems to explain.
pub fn versions_gallery() -> Vec<(&'static str, Program, Program)> {
    let nf = |n: &str, t: Ty| FieldDecl { name: Some(n.into()), ty: t, compact: false, skip: false, docs: vec![] };
    let def = |name: &str, params: Vec<&str>, fields: Vec<FieldDecl>| Def {
        module: vec!["m".into()],
        name: name.into(),
        params: params.into_iter().map(|p| ParamDecl { name: p.into(), skipped: false, cfg: false, uint: false }).collect(),
        kind: DefKind::Struct(Style::Named, fields),
        docs: vec![],
    };
    let prog = |defs: Vec<Def>, roots: Vec<Ty>| Program { krate: "krate".into(), defs, markers: vec![], roots, prefix: vec![] };
    let u8_ = || Ty::Prim(Prim::U8);
    let u32_ = || Ty::Prim(Prim::U32);
    let mut out = Vec::new();
    // W is not generic but names one instantiation of A; A<T> contains W. The versions use A<u8> /
    // A<u32>: as roots the A's differ only in T, but their W's differ.
    let v = |arg: Ty| {
        prog(
            vec![
                def("W", vec![], vec![nf("inner", Ty::Box(Ty::Def(1, vec![arg.clone()]).b()))]),
                def("A", vec!["T"], vec![nf("w", Ty::Option(Ty::Def(0, vec![]).b())), nf("t", Ty::Param(0))]),
            ],
            vec![Ty::Def(1, vec![arg])],
        )
    };
    out.push(("non-generic member names one instantiation of its generic owner", v(u8_()), v(u32_())));
    // Baz<T = Pair>: T explains Pair v1 / Pair v2 where T is written, not inside Qux, which names Pair itself
    let w = |elem: Ty| {
        prog(
            vec![
                def("Pair", vec![], vec![nf("x", Ty::Vec(elem.b()))]),
                def("Qux", vec![], vec![nf("p", Ty::Cow(Ty::Def(0, vec![]).b())), nf("n", u8_())]),
                def("Baz", vec!["T"], vec![nf("g", Ty::BTreeMap(Ty::Str.b(), Ty::Param(0).b())), nf("a", Ty::Def(1, vec![]))]),
            ],
            vec![Ty::Def(2, vec![Ty::Def(0, vec![])])],
        )
    };
    out.push(("generic argument also named inside a non-generic member", w(Ty::Tuple(vec![Ty::Prim(Prim::U64), Ty::Prim(Prim::U64)])), w(Ty::Tuple(vec![Ty::Prim(Prim::U64)]))));
    // the same unnamed type (String, T) under the generic parameter and, in a sibling, without one
    let x = |second: Ty| {
        prog(
            vec![
                def("Leaf", vec![], vec![nf("v", second)]),
                def("Plain", vec![], vec![nf("q", Ty::Tuple(vec![Ty::Str, Ty::Def(0, vec![])]))]),
                def("Gen", vec!["T"], vec![nf("a", Ty::Tuple(vec![Ty::Str, Ty::Param(0)])), nf("b", Ty::Vec(Ty::Def(1, vec![]).b()))]),
            ],
            vec![Ty::Def(2, vec![Ty::Def(0, vec![])])],
        )
    };
    out.push(("one unnamed type under a parameter and beside it", x(u8_()), x(u32_())));
    // P<T>{items: Vec<T>, other: B} at A  vs  P<T>{items: Vec<T>, other: A} at B: the pair (A, B) is
    // explained by T under the Vec and then meets crosswise, unexplained
    let y = |other: usize, arg: usize| {
        prog(
            vec![
                def("A", vec![], vec![nf("a", u8_())]),
                def("B", vec![], vec![nf("b", Ty::Prim(Prim::U64)), nf("c", Ty::Prim(Prim::Bool))]),
                def("P", vec!["T"], vec![nf("items", Ty::Vec(Ty::Param(0).b())), nf("other", Ty::Def(other, vec![]))]),
            ],
            vec![Ty::Def(2, vec![Ty::Def(arg, vec![])])],
        )
    };
    out.push(("argument pair meets again crosswise", y(1, 0), y(0, 1)));
    out
}

/// Hand-written single-crate families (associated types whose implementors name each other).
pub fn families_gallery() -> Vec<(&'static str, Program)> {
    let nf = |n: &str, t: Ty| FieldDecl { name: Some(n.into()), ty: t, compact: false, skip: false, docs: vec![] };
    let mut out = Vec::new();
    for (what, fields) in [
        ("config implementors name each other, wrapped parameter first", vec![nf("items", Ty::Vec(Ty::Param(0).b())), nf("other", Ty::Assoc(0, 0))]),
        ("config implementors name each other, associated type first", vec![nf("other", Ty::Assoc(0, 0)), nf("items", Ty::Option(Ty::Param(0).b()))]),
        ("config implementors name each other, under containers", vec![nf("items", Ty::Tuple(vec![Ty::Param(0), Ty::Prim(Prim::U8)])), nf("other", Ty::Vec(Ty::Assoc(0, 0).b())), nf("third", Ty::Assoc(0, 1))]),
    ] {
        let p = Def {
            module: vec!["m".into()],
            name: "P".into(),
            params: vec![ParamDecl { name: "T".into(), skipped: false, cfg: true, uint: false }],
            kind: DefKind::Struct(Style::Named, fields),
            docs: vec![],
        };
        for flip in [false, true] {
            let roots = if flip { vec![Ty::Def(0, vec![Ty::Marker(1)]), Ty::Def(0, vec![Ty::Marker(0)])] } else { vec![Ty::Def(0, vec![Ty::Marker(0)]), Ty::Def(0, vec![Ty::Marker(1)])] };
            out.push((
                what,
                Program {
                    krate: "krate".into(),
                    defs: vec![p.clone()],
                    markers: vec![Marker { assoc: vec![Ty::Marker(1), Ty::Prim(Prim::U8)] }, Marker { assoc: vec![Ty::Marker(0), Ty::Prim(Prim::U8)] }],
                    roots,
                    prefix: vec![],
                },
            ));
        }
    }
    out
}

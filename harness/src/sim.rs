//! Executable model of scale-info 2.11.5 (`Registry::register_type` + `TypeInfo` derive + the
//! built-in impls): turns a `Program` into the `PortableRegistry` real scale-info would produce.
//! Fidelity is monitored against the compiled corpus (DESIGN.md 3.4). Nothing here calls /repo.

use crate::prog::*;
use scale_info::{
    form::PortableForm, Field, Path, PortableRegistry, PortableType, Type, TypeDef, TypeDefArray,
    TypeDefBitSequence, TypeDefCompact, TypeDefComposite, TypeDefPrimitive, TypeDefSequence,
    TypeDefTuple, TypeDefVariant, TypeParameter, Variant,
};
use std::collections::{BTreeMap, HashMap};

pub struct SimOut {
    pub registry: PortableRegistry,
    /// id -> interning key (top-level normalised closed source type)
    pub keys: Vec<Ty>,
    /// id -> (def index, closed arguments) for entries that are instantiations of user defs
    pub def_insts: BTreeMap<u32, (usize, Vec<Ty>)>,
    pub root_ids: Vec<u32>,
    /// interning table: identity key -> id
    pub ids: HashMap<Ty, u32>,
}

/// `T::Identity` of scale-info: ONE step at the top level (the identity of `Box<Vec<T>>` is
/// `Vec<T>`, not `[T]`: scale-info registers both and they get different ids); aliases expanded
/// everywhere. The result is the interning key.
pub fn identity_key(t: &Ty) -> Ty {
    match expand_aliases(t) {
        Ty::Box(x) => *x,
        Ty::Vec(x) | Ty::VecDeque(x) => Ty::Slice(x),
        Ty::Str => Ty::StrSlice,
        Ty::Phantom(_) => Ty::Phantom(Ty::Tuple(vec![]).b()),
        other => other,
    }
}

/// What `type_info()` of a key delegates to (wrappers forward all the way down).
fn delegate(t: &Ty) -> Ty {
    match t {
        Ty::Box(x) => delegate(x),
        Ty::Vec(x) | Ty::VecDeque(x) => Ty::Slice(x.clone()),
        Ty::Str => Ty::StrSlice,
        other => other.clone(),
    }
}

pub fn expand_aliases(t: &Ty) -> Ty {
    use Ty::*;
    let e = |t: &Ty| expand_aliases(t);
    let eb = |t: &Ty| std::boxed::Box::new(expand_aliases(t));
    match t {
        Alias(_, inner) => e(inner),
        Prim(_) | Str | Marker(_) | NonZero(_) | Duration | BitVec(..) | BitVecOf(..) | CowStr | Param(_) | Assoc(..) | StrSlice => t.clone(),
        Slice(t) => Slice(eb(t)),
        Def(d, a) => Def(*d, a.iter().map(e).collect()),
        Vec(t) => Vec(eb(t)),
        VecDeque(t) => VecDeque(eb(t)),
        Array(t, n) => Array(eb(t), *n),
        Tuple(ts) => Tuple(ts.iter().map(e).collect()),
        Option(t) => Option(eb(t)),
        Result(a, b) => Result(eb(a), eb(b)),
        Box(t) => Box(eb(t)),
        Cow(t) => Cow(eb(t)),
        BTreeMap(a, b) => BTreeMap(eb(a), eb(b)),
        BTreeSet(t) => BTreeSet(eb(t)),
        BinaryHeap(t) => BinaryHeap(eb(t)),
        Range(t) => Range(eb(t)),
        RangeInclusive(t) => RangeInclusive(eb(t)),
        Phantom(t) => Phantom(eb(t)),
        Compact(t) => Compact(eb(t)),
    }
}

/// scale-info filters a field / tuple member iff its MetaType id is that of `PhantomData<()>`,
/// i.e. the type is literally a `PhantomData<_>` (a `Box<PhantomData<T>>` is NOT filtered: its
/// identity is `PhantomData<T>`, another TypeId).
pub fn is_phantom(t: &Ty) -> bool {
    identity_key(t) == Ty::Phantom(Ty::Tuple(vec![]).b())
}

pub fn prim_def(p: Prim) -> TypeDefPrimitive {
    match p {
        Prim::Bool => TypeDefPrimitive::Bool,
        Prim::Char => TypeDefPrimitive::Char,
        Prim::U8 => TypeDefPrimitive::U8,
        Prim::U16 => TypeDefPrimitive::U16,
        Prim::U32 => TypeDefPrimitive::U32,
        Prim::U64 => TypeDefPrimitive::U64,
        Prim::U128 => TypeDefPrimitive::U128,
        Prim::I8 => TypeDefPrimitive::I8,
        Prim::I16 => TypeDefPrimitive::I16,
        Prim::I32 => TypeDefPrimitive::I32,
        Prim::I64 => TypeDefPrimitive::I64,
        Prim::I128 => TypeDefPrimitive::I128,
    }
}

pub fn path(segs: &[&str]) -> Path<PortableForm> {
    Path::from_segments_unchecked(segs.iter().map(|s| s.to_string()))
}

pub fn field(name: Option<&str>, id: u32, type_name: Option<&str>, docs: &[String]) -> Field<PortableForm> {
    Field::new(name.map(|s| s.to_string()), id.into(), type_name.map(|s| s.to_string()), docs.to_vec())
}

pub fn mk_type(
    p: Path<PortableForm>,
    params: Vec<TypeParameter<PortableForm>>,
    def: TypeDef<PortableForm>,
    docs: Vec<String>,
) -> Type<PortableForm> {
    Type::new(p, params, def, docs)
}

struct Sim<'p> {
    prog: &'p Program,
    interned: HashMap<Ty, u32>,
    types: Vec<Option<Type<PortableForm>>>,
    keys: Vec<Ty>,
    def_insts: BTreeMap<u32, (usize, Vec<Ty>)>,
}

impl<'p> Sim<'p> {
    fn register(&mut self, t: &Ty) -> u32 {
        let key = identity_key(t);
        if let Some(id) = self.interned.get(&key) {
            return *id;
        }
        let id = self.types.len() as u32;
        self.interned.insert(key.clone(), id);
        self.types.push(None);
        self.keys.push(key.clone());
        let ty = self.type_info(&key, id);
        self.types[id as usize] = Some(ty);
        id
    }

    /// Fields of a built-in impl go through scale-info's FieldsBuilder, which drops PhantomData.
    fn builtin_fields(&mut self, fs: &[(Option<&str>, Ty, Option<&str>)]) -> Vec<Field<PortableForm>> {
        let mut out = Vec::new();
        for (name, ty, tn) in fs {
            if is_phantom(ty) {
                continue;
            }
            let id = self.register(ty);
            out.push(field(*name, id, *tn, &[]));
        }
        out
    }

    fn param(&mut self, name: &str, t: Option<&Ty>) -> TypeParameter<PortableForm> {
        TypeParameter::new_portable(name.to_string(), t.map(|t| self.register(t).into()))
    }

    fn type_info(&mut self, key: &Ty, id: u32) -> Type<PortableForm> {
        let none = Path::<PortableForm>::from_segments_unchecked(Vec::<String>::new());
        let key = &delegate(key);
        match key {
            Ty::Prim(p) => mk_type(none, vec![], TypeDef::Primitive(prim_def(*p)), vec![]),
            Ty::StrSlice => mk_type(none, vec![], TypeDef::Primitive(TypeDefPrimitive::Str), vec![]),
            Ty::Slice(t) => {
                let e = self.register(t);
                mk_type(none, vec![], TypeDef::Sequence(TypeDefSequence::new(e.into())), vec![])
            }
            Ty::Array(t, n) => {
                let e = self.register(t);
                mk_type(none, vec![], TypeDef::Array(TypeDefArray::new(*n, e.into())), vec![])
            }
            Ty::Tuple(ts) => {
                let ids: Vec<u32> = ts.iter().filter(|t| !is_phantom(t)).map(|t| self.register(t)).collect();
                mk_type(
                    none,
                    vec![],
                    TypeDef::Tuple(TypeDefTuple::new_portable(ids.into_iter().map(Into::into))),
                    vec![],
                )
            }
            Ty::Compact(t) => {
                let e = self.register(t);
                mk_type(none, vec![], TypeDef::Compact(TypeDefCompact::new(e.into())), vec![])
            }
            Ty::BitVec(store, msb) => {
                let s = self.register(&Ty::Prim(*store));
                // order marker types are interned under a private key
                let okey = Ty::Alias(if *msb { "$Msb0".into() } else { "$Lsb0".into() }, Ty::Tuple(vec![]).b());
                let o = match self.interned.get(&okey) {
                    Some(o) => *o,
                    None => {
                        let o = self.types.len() as u32;
                        self.interned.insert(okey.clone(), o);
                        self.keys.push(okey);
                        self.types.push(Some(mk_type(
                            path(&["bitvec", "order", if *msb { "Msb0" } else { "Lsb0" }]),
                            vec![],
                            TypeDef::Composite(TypeDefComposite::new(vec![])),
                            vec![],
                        )));
                        o
                    }
                };
                mk_type(
                    none,
                    vec![],
                    TypeDef::BitSequence(TypeDefBitSequence::new_portable(s.into(), o.into())),
                    vec![],
                )
            }
            Ty::Option(t) => {
                let params = vec![self.param("T", Some(t))];
                let some = self.builtin_fields(&[(None, (**t).clone(), None)]);
                mk_type(
                    path(&["Option"]),
                    params,
                    TypeDef::Variant(TypeDefVariant::new(vec![
                        Variant::new("None".into(), vec![], 0, vec![]),
                        Variant::new("Some".into(), some, 1, vec![]),
                    ])),
                    vec![],
                )
            }
            Ty::Result(a, b) => {
                let params = vec![self.param("T", Some(a)), self.param("E", Some(b))];
                let ok = self.builtin_fields(&[(None, (**a).clone(), None)]);
                let err = self.builtin_fields(&[(None, (**b).clone(), None)]);
                mk_type(
                    path(&["Result"]),
                    params,
                    TypeDef::Variant(TypeDefVariant::new(vec![
                        Variant::new("Ok".into(), ok, 0, vec![]),
                        Variant::new("Err".into(), err, 1, vec![]),
                    ])),
                    vec![],
                )
            }
            Ty::Cow(_) | Ty::CowStr => {
                let inner = match key {
                    Ty::Cow(t) => (**t).clone(),
                    _ => Ty::Str,
                };
                let params = vec![self.param("T", Some(&inner))];
                let fs = self.builtin_fields(&[(None, inner.clone(), None)]);
                mk_type(path(&["Cow"]), params, TypeDef::Composite(TypeDefComposite::new(fs)), vec![])
            }
            Ty::BTreeMap(k, v) => {
                let params = vec![self.param("K", Some(k)), self.param("V", Some(v))];
                let f = self.register(&Ty::Vec(Ty::Tuple(vec![(**k).clone(), (**v).clone()]).b()));
                mk_type(
                    path(&["BTreeMap"]),
                    params,
                    TypeDef::Composite(TypeDefComposite::new(vec![field(None, f, None, &[])])),
                    vec![],
                )
            }
            Ty::BTreeSet(t) | Ty::BinaryHeap(t) => {
                let params = vec![self.param("T", Some(t))];
                let f = self.register(&Ty::Vec(t.clone()));
                mk_type(
                    path(&[if matches!(key, Ty::BTreeSet(_)) { "BTreeSet" } else { "BinaryHeap" }]),
                    params,
                    TypeDef::Composite(TypeDefComposite::new(vec![field(None, f, None, &[])])),
                    vec![],
                )
            }
            Ty::Range(t) | Ty::RangeInclusive(t) => {
                let params = vec![self.param("Idx", Some(t))];
                let f = self.register(t);
                mk_type(
                    path(&[if matches!(key, Ty::Range(_)) { "Range" } else { "RangeInclusive" }]),
                    params,
                    TypeDef::Composite(TypeDefComposite::new(vec![
                        field(Some("start"), f, Some("Idx"), &[]),
                        field(Some("end"), f, Some("Idx"), &[]),
                    ])),
                    vec![],
                )
            }
            Ty::NonZero(p) => {
                let f = self.register(&Ty::Prim(*p));
                mk_type(
                    path(&[p.nonzero_name()]),
                    vec![],
                    TypeDef::Composite(TypeDefComposite::new(vec![field(None, f, None, &[])])),
                    vec![],
                )
            }
            Ty::Duration => {
                let a = self.register(&Ty::Prim(Prim::U64));
                let b = self.register(&Ty::Prim(Prim::U32));
                mk_type(
                    path(&["Duration"]),
                    vec![],
                    TypeDef::Composite(TypeDefComposite::new(vec![
                        field(None, a, Some("u64"), &[]),
                        field(None, b, Some("u32"), &[]),
                    ])),
                    vec![],
                )
            }
            Ty::Phantom(_) => mk_type(
                path(&["PhantomData"]),
                vec![],
                TypeDef::Composite(TypeDefComposite::new(vec![])),
                vec!["PhantomData placeholder, this type should be filtered out".into()],
            ),
            Ty::Marker(j) => mk_type(
                {
                    let mut segs = vec![self.prog.krate.clone()];
                    segs.extend(self.prog.prefix.iter().cloned());
                    segs.push(format!("M{j}"));
                    Path::from_segments_unchecked(segs)
                },
                vec![],
                TypeDef::Composite(TypeDefComposite::new(vec![])),
                vec![],
            ),
            Ty::Def(d, args) => {
                self.def_insts.insert(id, (*d, args.clone()));
                let def = &self.prog.defs[*d];
                let segs = self.prog.def_path(*d);
                let p = Path::from_segments_unchecked(segs);
                let mut params = Vec::new();
                for (i, pd) in def.params.iter().enumerate() {
                    let t = if pd.skipped { None } else { Some(&args[i]) };
                    params.push(self.param(&pd.name, t));
                }
                let typedef = match &def.kind {
                    DefKind::Struct(_, fs) => {
                        TypeDef::Composite(TypeDefComposite::new(self.fields(*d, fs, args)))
                    }
                    DefKind::Enum(vs) => {
                        let mut out = Vec::new();
                        for (i, v) in vs.iter().enumerate() {
                            let fields = self.fields(*d, &v.fields, args);
                            out.push(Variant::new(
                                v.name.clone(),
                                fields,
                                v.index.unwrap_or(i as u8),
                                v.docs.clone(),
                            ));
                        }
                        TypeDef::Variant(TypeDefVariant::new(out))
                    }
                };
                mk_type(p, params, typedef, def.docs.clone())
            }
            Ty::Box(_) | Ty::VecDeque(_) | Ty::Vec(_) | Ty::Str | Ty::Alias(..) => unreachable!("delegated away: {key:?}"),
            Ty::Param(_) | Ty::Assoc(..) | Ty::BitVecOf(..) => panic!("open type registered: {key:?}"),
        }
    }

    fn fields(&mut self, d: usize, fs: &[FieldDecl], args: &[Ty]) -> Vec<Field<PortableForm>> {
        let mut out = Vec::new();
        for f in fs {
            if f.skip {
                continue;
            }
            let closed = f.ty.subst(args, self.prog);
            let closed = if f.compact { Ty::Compact(closed.b()) } else { closed };
            if is_phantom(&closed) {
                continue;
            }
            let id = self.register(&closed);
            let tn = self.prog.type_name(&f.ty, d);
            out.push(field(f.name.as_deref(), id, Some(&tn), &f.docs));
        }
        out
    }
}

/// Run the model: register `prog.roots` in order.
pub fn simulate(prog: &Program) -> SimOut {
    simulate_roots(prog, &prog.roots)
}

pub fn simulate_roots(prog: &Program, roots: &[Ty]) -> SimOut {
    let mut sim = Sim { prog, interned: HashMap::new(), types: vec![], keys: vec![], def_insts: BTreeMap::new() };
    let root_ids = roots.iter().map(|r| sim.register(r)).collect();
    let types = sim
        .types
        .into_iter()
        .enumerate()
        .map(|(i, t)| PortableType { id: i as u32, ty: t.expect("all registered types completed") })
        .collect();
    SimOut { registry: PortableRegistry { types }, keys: sim.keys, def_insts: sim.def_insts, root_ids, ids: sim.interned }
}

// ------------------------------------------------------------------------------------------------
// Coincidence-freedom decided exactly from the source program (DESIGN.md 3.3)
// ------------------------------------------------------------------------------------------------

/// Positions of a field type the generator consults: (open source expression, is a bare parameter
/// position). Box shares the node of its content; PhantomData contributes nothing; arguments at
/// skipped parameter positions of a definition are not recorded by scale-info.
fn consulted_positions(prog: &Program, t: &Ty, out: &mut Vec<(Ty, bool)>) {
    consulted_positions_in(prog, t, None, out)
}

/// `args`: when given, associated types are expanded under this instantiation and every
/// component of the expansion is recorded as a non-parameter position.
fn consulted_positions_in(prog: &Program, t: &Ty, args: Option<&[Ty]>, out: &mut std::vec::Vec<(Ty, bool)>) {
    consulted_positions_opts(prog, t, args, out, false)
}

/// `open_wrapped`: a parameter under a transparent wrapper (`Box<T>`, `Cow<T>`) is not recognised
/// by the generator, which then walks the concrete argument: report the components of the closed
/// argument as non-parameter positions (where another argument's id can coincide).
fn consulted_positions_opts(prog: &Program, t: &Ty, args: Option<&[Ty]>, out: &mut std::vec::Vec<(Ty, bool)>, open_wrapped: bool) {
    use Ty::*;
    let consulted_positions = |prog: &Program, t: &Ty, out: &mut std::vec::Vec<(Ty, bool)>| consulted_positions_opts(prog, t, args, out, open_wrapped);
    if open_wrapped {
        if let (Box(x) | Cow(x), Some(a)) = (t, args) {
            let mut inner: &Ty = x;
            while let Box(y) | Cow(y) = inner {
                inner = y;
            }
            if let Param(i) = inner {
                let closed = expand_aliases(&a[*i]);
                let mut below = std::vec::Vec::new();
                consulted_positions_opts(prog, &closed, None, &mut below, false);
                out.push((t.clone(), true));
                out.extend(below.into_iter().skip(1).map(|(e, _)| (e, false)));
                return;
            }
        }
    }
    match t {
        Assoc(..) if args.is_some() => {
            let closed = t.subst(args.unwrap(), prog);
            let mut inner = std::vec::Vec::new();
            consulted_positions_in(prog, &closed, None, &mut inner);
            out.push((t.clone(), false));
            out.extend(inner.into_iter().map(|(e, _)| (e, false)));
        }
        Box(x) | Alias(_, x) => {
            // same registry node as the content
            let mut inner = std::vec::Vec::new();
            consulted_positions(prog, x, &mut inner);
            if let Some(first) = inner.first_mut() {
                if matches!(t, Alias(..)) {
                    first.1 = false;
                } else if !first.1 {
                    // ... but its id is that of `Box<X>`'s identity, X taken verbatim (one step):
                    // `Box<String>` is the entry of `String`, not of `str`
                    first.0 = t.clone();
                }
            }
            out.extend(inner);
        }
        Phantom(_) => {}
        Param(_) => out.push((t.clone(), true)),
        Prim(_) | Str | Marker(_) | NonZero(_) | Duration | CowStr | Assoc(..) | StrSlice => out.push((t.clone(), false)),
        BitVec(s, _) => {
            out.push((t.clone(), false));
            out.push((Prim(*s), false));
        }
        BitVecOf(i, _) => {
            out.push((t.clone(), false));
            out.push((Param(*i), true));
        }
        Vec(x) | VecDeque(x) | Array(x, _) | Option(x) | Cow(x) | BTreeSet(x) | BinaryHeap(x) | Range(x)
        | RangeInclusive(x) | Compact(x) | Slice(x) => {
            out.push((t.clone(), false));
            consulted_positions(prog, x, out);
        }
        Result(a, b) | BTreeMap(a, b) => {
            out.push((t.clone(), false));
            consulted_positions(prog, a, out);
            consulted_positions(prog, b, out);
        }
        Tuple(ts) => {
            out.push((t.clone(), false));
            for x in ts {
                consulted_positions(prog, x, out);
            }
        }
        Def(d, args) => {
            out.push((t.clone(), false));
            for (i, a) in args.iter().enumerate() {
                if !prog.defs[*d].params[i].skipped {
                    consulted_positions(prog, a, out);
                }
            }
        }
    }
}

/// For every instantiation of a user definition present in the registry: None = coincidence-free,
/// Some(reason) otherwise.
pub fn cf_source(prog: &Program, sim: &SimOut) -> BTreeMap<u32, Option<String>> {
    let mut out = BTreeMap::new();
    for (id, (d, args)) in &sim.def_insts {
        out.insert(*id, cf_inst(prog, sim, *d, args));
    }
    out
}

/// Only the id coincidences (CF-1, CF-2): the instantiations on which an argument id also occurs
/// at a non-parameter position. Transparent wrappers around a parameter (CF-3) lose the parameter
/// but never make two shapes look alike, so they are not a reason to expect a conflation.
pub fn coincidences(prog: &Program, sim: &SimOut) -> std::collections::BTreeSet<u32> {
    sim.def_insts.iter().filter(|(_, (d, args))| cf_inst_opts(prog, sim, *d, args, true).is_some()).map(|(id, _)| *id).collect()
}

/// Instantiations of definitions that use a parameter under a transparent wrapper (CF-3).
pub fn wrapper_insts(prog: &Program, sim: &SimOut) -> std::collections::BTreeSet<u32> {
    sim.def_insts
        .iter()
        .filter(|(_, (d, args))| {
            // CF-3 is reported before CF-2 per field; ask for "any reason" and for "coincidence only"
            let any = cf_inst_opts(prog, sim, *d, args, false);
            any.map(|r| r.starts_with("CF-3")).unwrap_or(false) || wrapper_only(prog, *d)
        })
        .map(|(id, _)| *id)
        .collect()
}

fn wrapper_only(prog: &Program, d: usize) -> bool {
    let def = &prog.defs[d];
    let fields: Vec<&FieldDecl> = match &def.kind {
        DefKind::Struct(_, fs) => fs.iter().collect(),
        DefKind::Enum(vs) => vs.iter().flat_map(|v| v.fields.iter()).collect(),
    };
    fields.iter().any(|f| {
        let mut hit = false;
        f.ty.walk(&mut |t| {
            if let Ty::Box(x) | Ty::Cow(x) = t {
                let mut inner: &Ty = x;
                while let Ty::Box(y) | Ty::Cow(y) = inner {
                    inner = y;
                }
                if matches!(inner, Ty::Param(_)) {
                    hit = true;
                }
            }
        });
        hit
    })
}

fn cf_inst(prog: &Program, sim: &SimOut, d: usize, args: &[Ty]) -> Option<String> {
    cf_inst_opts(prog, sim, d, args, false)
}

fn cf_inst_opts(prog: &Program, sim: &SimOut, d: usize, args: &[Ty], coincidences_only: bool) -> Option<String> {
    let def = &prog.defs[d];
    let id_of = |t: &Ty| sim.ids.get(&identity_key(t)).copied();
    let mut arg_ids: Vec<(usize, u32)> = Vec::new();
    for (i, p) in def.params.iter().enumerate() {
        if !p.skipped {
            if let Some(id) = id_of(&args[i]) {
                arg_ids.push((i, id));
            }
        }
    }
    if arg_ids.is_empty() {
        return None;
    }
    for a in 0..arg_ids.len() {
        for b in a + 1..arg_ids.len() {
            if arg_ids[a].1 == arg_ids[b].1 {
                return Some(format!("CF-1: arguments {} and {} coincide", arg_ids[a].0, arg_ids[b].0));
            }
        }
    }
    let fields: Vec<&FieldDecl> = match &def.kind {
        DefKind::Struct(_, fs) => fs.iter().collect(),
        DefKind::Enum(vs) => vs.iter().flat_map(|v| v.fields.iter()).collect(),
    };
    for f in fields {
        if f.skip {
            continue;
        }
        // CF-3: transparent wrapper directly around a parameter at field level
        let mut top = &f.ty;
        let mut wrapped = false;
        while let Ty::Box(x) | Ty::Cow(x) = top {
            top = x;
            wrapped = true;
        }
        if wrapped && matches!(top, Ty::Param(_)) && !coincidences_only {
            return Some("CF-3: parameter directly under a transparent wrapper".into());
        }
        // CF-3 at depth: scale-info's identity is ONE step, so the id of a nested `Box<T>` equals
        // the id of `T` only when T's own identity is trivial and there is exactly one wrapper
        // (`Box<String>` is registered as `String`, not `str`; `Box<Box<T>>` as `Box<T>`)
        let mut deep: Option<String> = None;
        f.ty.walk(&mut |t| {
            if let Ty::Box(x) | Ty::Cow(x) = t {
                let mut inner: &Ty = x;
                let mut wrappers = 1;
                while let Ty::Box(y) | Ty::Cow(y) = inner {
                    inner = y;
                    wrappers += 1;
                }
                if let Ty::Param(i) = inner {
                    let arg = expand_aliases(&args[*i]);
                    let trivial = identity_key(&arg) == arg;
                    if wrappers >= 2 || !trivial {
                        deep = Some(format!("CF-3: parameter {i} under {wrappers} transparent wrapper(s) with an argument whose identity is not itself"));
                    }
                }
            }
        });
        if deep.is_some() && !coincidences_only {
            return deep;
        }
        let mut pos = Vec::new();
        consulted_positions_opts(prog, &f.ty, Some(args), &mut pos, coincidences_only);
        if f.compact {
            pos.push((Ty::Compact(f.ty.clone().b()), false));
        }
        for (expr, is_param) in pos {
            if is_param {
                continue;
            }
            let closed = expr.subst(args, prog);
            if let Some(cid) = id_of(&closed) {
                if let Some((i, _)) = arg_ids.iter().find(|(_, aid)| *aid == cid) {
                    return Some(format!(
                        "CF-2: component `{}` has the id of argument {}",
                        prog.render_ty(&expr, Some(d)),
                        i
                    ));
                }
            }
        }
    }
    None
}

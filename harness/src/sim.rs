//! Executable model of scale-info 2.11.5 (`Registry::register_type` + `TypeInfo` derive + the
//! built-in impls): turns a `Program` into the `PortableRegistry` real scale-info would produce.
//! Fidelity is monitored against the compiled corpus (DESIGN.md 3.4). Nothing here calls /repo.

use crate::prog::*;
use scale_info::{
    form::PortableForm, Field, Path, PortableRegistry, PortableType, Type, TypeDef, TypeDefArray,
    TypeDefBitSequence, TypeDefCompact, TypeDefComposite, TypeDefPrimitive, TypeDefSequence,
    TypeDefTuple, TypeDefVariant, TypeParameter, Variant,
};
use std::collections::{BTreeMap, HashMap};

pub struct SimOut {
    pub registry: PortableRegistry,
    /// id -> interning key (top-level normalised closed source type)
    pub keys: Vec<Ty>,
    /// id -> (def index, closed arguments) for entries that are instantiations of user defs
    pub def_insts: BTreeMap<u32, (usize, Vec<Ty>)>,
    pub root_ids: Vec<u32>,
}

/// `T::Identity` of scale-info applied at the top level only; aliases expanded everywhere.
pub fn identity_key(t: &Ty) -> Ty {
    let t = expand_aliases(t);
    fn top(t: Ty) -> Ty {
        match t {
            Ty::Box(x) => top(*x),
            Ty::VecDeque(x) => Ty::Vec(x),
            Ty::Phantom(_) => Ty::Phantom(Ty::Tuple(vec![]).b()),
            other => other,
        }
    }
    top(t)
}

pub fn expand_aliases(t: &Ty) -> Ty {
    use Ty::*;
    let e = |t: &Ty| expand_aliases(t);
    let eb = |t: &Ty| std::boxed::Box::new(expand_aliases(t));
    match t {
        Alias(_, inner) => e(inner),
        Prim(_) | Str | Marker(_) | NonZero(_) | Duration | BitVec(..) | CowStr | Param(_) | Assoc(..) => t.clone(),
        Def(d, a) => Def(*d, a.iter().map(e).collect()),
        Vec(t) => Vec(eb(t)),
        VecDeque(t) => VecDeque(eb(t)),
        Array(t, n) => Array(eb(t), *n),
        Tuple(ts) => Tuple(ts.iter().map(e).collect()),
        Option(t) => Option(eb(t)),
        Result(a, b) => Result(eb(a), eb(b)),
        Box(t) => Box(eb(t)),
        Cow(t) => Cow(eb(t)),
        BTreeMap(a, b) => BTreeMap(eb(a), eb(b)),
        BTreeSet(t) => BTreeSet(eb(t)),
        BinaryHeap(t) => BinaryHeap(eb(t)),
        Range(t) => Range(eb(t)),
        RangeInclusive(t) => RangeInclusive(eb(t)),
        Phantom(t) => Phantom(eb(t)),
        Compact(t) => Compact(eb(t)),
    }
}

fn is_phantom(t: &Ty) -> bool {
    matches!(identity_key(t), Ty::Phantom(_))
}

pub fn prim_def(p: Prim) -> TypeDefPrimitive {
    match p {
        Prim::Bool => TypeDefPrimitive::Bool,
        Prim::Char => TypeDefPrimitive::Char,
        Prim::U8 => TypeDefPrimitive::U8,
        Prim::U16 => TypeDefPrimitive::U16,
        Prim::U32 => TypeDefPrimitive::U32,
        Prim::U64 => TypeDefPrimitive::U64,
        Prim::U128 => TypeDefPrimitive::U128,
        Prim::I8 => TypeDefPrimitive::I8,
        Prim::I16 => TypeDefPrimitive::I16,
        Prim::I32 => TypeDefPrimitive::I32,
        Prim::I64 => TypeDefPrimitive::I64,
        Prim::I128 => TypeDefPrimitive::I128,
    }
}

pub fn path(segs: &[&str]) -> Path<PortableForm> {
    Path::from_segments_unchecked(segs.iter().map(|s| s.to_string()))
}

pub fn field(name: Option<&str>, id: u32, type_name: Option<&str>, docs: &[String]) -> Field<PortableForm> {
    Field::new(name.map(|s| s.to_string()), id.into(), type_name.map(|s| s.to_string()), docs.to_vec())
}

pub fn mk_type(
    p: Path<PortableForm>,
    params: Vec<TypeParameter<PortableForm>>,
    def: TypeDef<PortableForm>,
    docs: Vec<String>,
) -> Type<PortableForm> {
    Type::new(p, params, def, docs)
}

struct Sim<'p> {
    prog: &'p Program,
    interned: HashMap<Ty, u32>,
    types: Vec<Option<Type<PortableForm>>>,
    keys: Vec<Ty>,
    def_insts: BTreeMap<u32, (usize, Vec<Ty>)>,
}

impl<'p> Sim<'p> {
    fn register(&mut self, t: &Ty) -> u32 {
        let key = identity_key(t);
        if let Some(id) = self.interned.get(&key) {
            return *id;
        }
        let id = self.types.len() as u32;
        self.interned.insert(key.clone(), id);
        self.types.push(None);
        self.keys.push(key.clone());
        let ty = self.type_info(&key, id);
        self.types[id as usize] = Some(ty);
        id
    }

    fn param(&mut self, name: &str, t: Option<&Ty>) -> TypeParameter<PortableForm> {
        TypeParameter::new_portable(name.to_string(), t.map(|t| self.register(t).into()))
    }

    fn type_info(&mut self, key: &Ty, id: u32) -> Type<PortableForm> {
        let none = Path::<PortableForm>::from_segments_unchecked(Vec::<String>::new());
        match key {
            Ty::Prim(p) => mk_type(none, vec![], TypeDef::Primitive(prim_def(*p)), vec![]),
            Ty::Str => mk_type(none, vec![], TypeDef::Primitive(TypeDefPrimitive::Str), vec![]),
            Ty::Vec(t) => {
                let e = self.register(t);
                mk_type(none, vec![], TypeDef::Sequence(TypeDefSequence::new(e.into())), vec![])
            }
            Ty::Array(t, n) => {
                let e = self.register(t);
                mk_type(none, vec![], TypeDef::Array(TypeDefArray::new(*n, e.into())), vec![])
            }
            Ty::Tuple(ts) => {
                let ids: Vec<u32> = ts.iter().filter(|t| !is_phantom(t)).map(|t| self.register(t)).collect();
                mk_type(
                    none,
                    vec![],
                    TypeDef::Tuple(TypeDefTuple::new_portable(ids.into_iter().map(Into::into))),
                    vec![],
                )
            }
            Ty::Compact(t) => {
                let e = self.register(t);
                mk_type(none, vec![], TypeDef::Compact(TypeDefCompact::new(e.into())), vec![])
            }
            Ty::BitVec(store, msb) => {
                let s = self.register(&Ty::Prim(*store));
                // order marker types are interned under a private key
                let okey = Ty::Alias(if *msb { "$Msb0".into() } else { "$Lsb0".into() }, Ty::Tuple(vec![]).b());
                let o = match self.interned.get(&okey) {
                    Some(o) => *o,
                    None => {
                        let o = self.types.len() as u32;
                        self.interned.insert(okey.clone(), o);
                        self.keys.push(okey);
                        self.types.push(Some(mk_type(
                            path(&["bitvec", "order", if *msb { "Msb0" } else { "Lsb0" }]),
                            vec![],
                            TypeDef::Composite(TypeDefComposite::new(vec![])),
                            vec![],
                        )));
                        o
                    }
                };
                mk_type(
                    none,
                    vec![],
                    TypeDef::BitSequence(TypeDefBitSequence::new_portable(s.into(), o.into())),
                    vec![],
                )
            }
            Ty::Option(t) => {
                let params = vec![self.param("T", Some(t))];
                let some = self.register(t);
                mk_type(
                    path(&["Option"]),
                    params,
                    TypeDef::Variant(TypeDefVariant::new(vec![
                        Variant::new("None".into(), vec![], 0, vec![]),
                        Variant::new("Some".into(), vec![field(None, some, None, &[])], 1, vec![]),
                    ])),
                    vec![],
                )
            }
            Ty::Result(a, b) => {
                let params = vec![self.param("T", Some(a)), self.param("E", Some(b))];
                let ok = self.register(a);
                let err = self.register(b);
                mk_type(
                    path(&["Result"]),
                    params,
                    TypeDef::Variant(TypeDefVariant::new(vec![
                        Variant::new("Ok".into(), vec![field(None, ok, None, &[])], 0, vec![]),
                        Variant::new("Err".into(), vec![field(None, err, None, &[])], 1, vec![]),
                    ])),
                    vec![],
                )
            }
            Ty::Cow(_) | Ty::CowStr => {
                let inner = match key {
                    Ty::Cow(t) => (**t).clone(),
                    _ => Ty::Str,
                };
                let params = vec![self.param("T", Some(&inner))];
                let f = self.register(&inner);
                mk_type(
                    path(&["Cow"]),
                    params,
                    TypeDef::Composite(TypeDefComposite::new(vec![field(None, f, None, &[])])),
                    vec![],
                )
            }
            Ty::BTreeMap(k, v) => {
                let params = vec![self.param("K", Some(k)), self.param("V", Some(v))];
                let f = self.register(&Ty::Vec(Ty::Tuple(vec![(**k).clone(), (**v).clone()]).b()));
                mk_type(
                    path(&["BTreeMap"]),
                    params,
                    TypeDef::Composite(TypeDefComposite::new(vec![field(None, f, None, &[])])),
                    vec![],
                )
            }
            Ty::BTreeSet(t) | Ty::BinaryHeap(t) => {
                let params = vec![self.param("T", Some(t))];
                let f = self.register(&Ty::Vec(t.clone()));
                mk_type(
                    path(&[if matches!(key, Ty::BTreeSet(_)) { "BTreeSet" } else { "BinaryHeap" }]),
                    params,
                    TypeDef::Composite(TypeDefComposite::new(vec![field(None, f, None, &[])])),
                    vec![],
                )
            }
            Ty::Range(t) | Ty::RangeInclusive(t) => {
                let params = vec![self.param("Idx", Some(t))];
                let f = self.register(t);
                mk_type(
                    path(&[if matches!(key, Ty::Range(_)) { "Range" } else { "RangeInclusive" }]),
                    params,
                    TypeDef::Composite(TypeDefComposite::new(vec![
                        field(Some("start"), f, Some("Idx"), &[]),
                        field(Some("end"), f, Some("Idx"), &[]),
                    ])),
                    vec![],
                )
            }
            Ty::NonZero(p) => {
                let f = self.register(&Ty::Prim(*p));
                mk_type(
                    path(&[p.nonzero_name()]),
                    vec![],
                    TypeDef::Composite(TypeDefComposite::new(vec![field(None, f, None, &[])])),
                    vec![],
                )
            }
            Ty::Duration => {
                let a = self.register(&Ty::Prim(Prim::U64));
                let b = self.register(&Ty::Prim(Prim::U32));
                mk_type(
                    path(&["Duration"]),
                    vec![],
                    TypeDef::Composite(TypeDefComposite::new(vec![
                        field(None, a, Some("u64"), &[]),
                        field(None, b, Some("u32"), &[]),
                    ])),
                    vec![],
                )
            }
            Ty::Phantom(_) => mk_type(
                path(&["PhantomData"]),
                vec![],
                TypeDef::Composite(TypeDefComposite::new(vec![])),
                vec!["PhantomData placeholder, this type should be filtered out".into()],
            ),
            Ty::Marker(j) => mk_type(
                path(&[self.prog.krate.as_str(), &format!("M{j}")]),
                vec![],
                TypeDef::Composite(TypeDefComposite::new(vec![])),
                vec![],
            ),
            Ty::Def(d, args) => {
                self.def_insts.insert(id, (*d, args.clone()));
                let def = &self.prog.defs[*d];
                let segs = self.prog.def_path(*d);
                let p = Path::from_segments_unchecked(segs);
                let mut params = Vec::new();
                for (i, pd) in def.params.iter().enumerate() {
                    let t = if pd.skipped { None } else { Some(&args[i]) };
                    params.push(self.param(&pd.name, t));
                }
                let typedef = match &def.kind {
                    DefKind::Struct(_, fs) => {
                        TypeDef::Composite(TypeDefComposite::new(self.fields(*d, fs, args)))
                    }
                    DefKind::Enum(vs) => {
                        let mut out = Vec::new();
                        for (i, v) in vs.iter().enumerate() {
                            let fields = self.fields(*d, &v.fields, args);
                            out.push(Variant::new(
                                v.name.clone(),
                                fields,
                                v.index.unwrap_or(i as u8),
                                v.docs.clone(),
                            ));
                        }
                        TypeDef::Variant(TypeDefVariant::new(out))
                    }
                };
                mk_type(p, params, typedef, def.docs.clone())
            }
            Ty::Box(_) | Ty::VecDeque(_) | Ty::Alias(..) => unreachable!("normalised away: {key:?}"),
            Ty::Param(_) | Ty::Assoc(..) => panic!("open type registered: {key:?}"),
        }
    }

    fn fields(&mut self, d: usize, fs: &[FieldDecl], args: &[Ty]) -> Vec<Field<PortableForm>> {
        let mut out = Vec::new();
        for f in fs {
            if f.skip {
                continue;
            }
            let closed = f.ty.subst(args, self.prog);
            let closed = if f.compact { Ty::Compact(closed.b()) } else { closed };
            if is_phantom(&closed) {
                continue;
            }
            let id = self.register(&closed);
            let tn = self.prog.type_name(&f.ty, d);
            out.push(field(f.name.as_deref(), id, Some(&tn), &f.docs));
        }
        out
    }
}

/// Run the model: register `prog.roots` in order.
pub fn simulate(prog: &Program) -> SimOut {
    simulate_roots(prog, &prog.roots)
}

pub fn simulate_roots(prog: &Program, roots: &[Ty]) -> SimOut {
    let mut sim = Sim { prog, interned: HashMap::new(), types: vec![], keys: vec![], def_insts: BTreeMap::new() };
    let root_ids = roots.iter().map(|r| sim.register(r)).collect();
    let types = sim
        .types
        .into_iter()
        .enumerate()
        .map(|(i, t)| PortableType { id: i as u32, ty: t.expect("all registered types completed") })
        .collect();
    SimOut { registry: PortableRegistry { types }, keys: sim.keys, def_insts: sim.def_insts, root_ids }
}

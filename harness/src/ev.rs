//! Shard context, results, verdict aggregation, evidence files, known findings (DESIGN.md 8).

use rand::SeedableRng;
use rand_chacha::ChaCha8Rng;
use serde::{Deserialize, Serialize};
use serde_json::{json, Value};
use std::collections::{BTreeMap, BTreeSet};
use std::hash::{Hash, Hasher};
use std::path::PathBuf;

#[derive(Clone, Copy, Debug, PartialEq, Eq, Serialize, Deserialize)]
pub enum Tier {
    Quick,
    Thorough,
}

impl Tier {
    pub fn name(self) -> &'static str {
        match self {
            Tier::Quick => "quick",
            Tier::Thorough => "thorough",
        }
    }
    pub fn pick<T>(self, quick: T, thorough: T) -> T {
        match self {
            Tier::Quick => quick,
            Tier::Thorough => thorough,
        }
    }
}

#[derive(Clone, Debug, Serialize, Deserialize)]
pub struct Violation {
    /// deterministic finding key (input-level predicate / call site), DESIGN.md 8.3
    pub key: String,
    pub what: String,
    pub replay: Value,
}

#[derive(Clone, Debug, Default, Serialize, Deserialize)]
pub struct ShardResult {
    pub evaluations: u64,
    pub nontrivial: BTreeSet<u64>,
    pub counters: BTreeMap<String, u64>,
    pub samples: Vec<Value>,
    pub violations: Vec<Violation>,
    pub inconclusive: Vec<String>,
    pub notes: Vec<String>,
    /// set when the run enumerated its finite space completely
    pub exhaustive: Option<bool>,
}

pub struct Ctx {
    pub prop: String,
    pub tier: Tier,
    pub seed: u64,
    pub shard: usize,
    pub of: usize,
    pub res: ShardResult,
    pub progress: Option<PathBuf>,
    pub max_samples: usize,
    viol_keys: BTreeMap<String, usize>,
}

pub fn hash_of<T: Hash + ?Sized>(t: &T) -> u64 {
    let mut h = std::collections::hash_map::DefaultHasher::new();
    t.hash(&mut h);
    h.finish()
}

impl Ctx {
    pub fn new(prop: &str, tier: Tier, seed: u64, shard: usize, of: usize, progress: Option<PathBuf>) -> Self {
        Ctx {
            prop: prop.to_string(),
            tier,
            seed,
            shard,
            of,
            res: ShardResult::default(),
            progress: {
                if let Some(p) = &progress {
                    // one byte next to the progress file says whether the code under test is
                    // running right now ('L') or the harness ('H'): see `guard`
                    let mut f = p.clone().into_os_string();
                    f.push(".lib");
                    if let Ok(file) = std::fs::OpenOptions::new().create(true).write(true).truncate(true).open(&f) {
                        let _ = LIB_FLAG.set(file);
                    }
                }
                progress
            },
            max_samples: 4,
            viol_keys: BTreeMap::new(),
        }
    }

    /// Deterministic rng for (seed, label, index).
    pub fn rng(&self, label: &str, index: u64) -> ChaCha8Rng {
        let mut h = std::collections::hash_map::DefaultHasher::new();
        self.seed.hash(&mut h);
        self.prop.hash(&mut h);
        label.hash(&mut h);
        index.hash(&mut h);
        ChaCha8Rng::seed_from_u64(h.finish())
    }

    /// Does this shard own case `index`?
    pub fn mine(&self, index: u64) -> bool {
        (index % self.of as u64) as usize == self.shard
    }

    pub fn begin_case(&self, desc: &str) {
        if let Some(p) = &self.progress {
            let _ = std::fs::write(p, desc);
        }
    }

    /// Record one executed case; `nontrivial` as defined by the monitor's rule.
    pub fn case(&mut self, hash: u64, nontrivial: bool) {
        self.res.evaluations += 1;
        if nontrivial {
            self.res.nontrivial.insert(hash);
        }
    }

    pub fn count(&mut self, key: &str, n: u64) {
        *self.res.counters.entry(key.to_string()).or_insert(0) += n;
    }

    pub fn sample(&mut self, v: Value) {
        if self.res.samples.len() < self.max_samples {
            self.res.samples.push(v);
        }
    }

    /// Report a violation; at most 3 replays are kept per key per shard.
    pub fn violation(&mut self, key: impl Into<String>, what: impl Into<String>, replay: Value) {
        let key = key.into();
        self.count(&format!("violations[{key}]"), 1);
        let n = self.viol_keys.entry(key.clone()).or_insert(0);
        *n += 1;
        if *n <= 1 {
            self.res.violations.push(Violation { key, what: what.into(), replay });
        } else if *n <= 200 {
            // keep the smallest witness seen for this key
            let size = |v: &Value| serde_json::to_string(v).map(|s| s.len()).unwrap_or(usize::MAX);
            if let Some(cur) = self.res.violations.iter_mut().find(|v| v.key == key) {
                if size(&replay) < size(&cur.replay) {
                    cur.what = what.into();
                    cur.replay = replay;
                }
            }
        }
    }

    pub fn inconclusive(&mut self, why: impl Into<String>) {
        let why = why.into();
        if !self.res.inconclusive.contains(&why) {
            self.res.inconclusive.push(why);
        }
    }

    pub fn note(&mut self, s: impl Into<String>) {
        let s = s.into();
        if self.res.notes.len() < 40 && !self.res.notes.contains(&s) {
            self.res.notes.push(s);
        }
    }
}

// ------------------------------------------------------------------------------------------------
// running code under test: panics are observations, not harness failures
// ------------------------------------------------------------------------------------------------

thread_local! {
    static LAST_PANIC: std::cell::RefCell<Option<String>> = const { std::cell::RefCell::new(None) };
    static GUARD_DEPTH: std::cell::Cell<u32> = const { std::cell::Cell::new(0) };
}

pub fn install_panic_hook() {
    let default = std::panic::take_hook();
    std::panic::set_hook(Box::new(move |info| {
        let guarded = GUARD_DEPTH.with(|d| d.get()) > 0;
        let msg = if let Some(s) = info.payload().downcast_ref::<&str>() {
            s.to_string()
        } else if let Some(s) = info.payload().downcast_ref::<String>() {
            s.clone()
        } else {
            "<non-string panic payload>".to_string()
        };
        let loc = info.location().map(|l| format!("{}:{}", l.file(), l.line())).unwrap_or_default();
        if guarded {
            LAST_PANIC.with(|p| *p.borrow_mut() = Some(format!("{msg} @ {loc}")));
        } else {
            default(info);
        }
    }));
}

#[derive(Clone, Debug)]
pub struct Panicked {
    pub msg: String,
}

impl Panicked {
    /// message without the file:line suffix and without digits (stable signature)
    pub fn signature(&self) -> String {
        let m = self.msg.split(" @ ").next().unwrap_or("");
        let loc = self.msg.rsplit(" @ ").next().unwrap_or("");
        let file = loc.rsplit('/').next().unwrap_or("").split(':').next().unwrap_or("");
        let short: String = m.chars().take(60).collect();
        format!("{short}@{file}")
    }
}

static LIB_FLAG: std::sync::OnceLock<std::fs::File> = std::sync::OnceLock::new();

fn lib_flag(b: u8) {
    use std::os::unix::fs::FileExt;
    if let Some(f) = LIB_FLAG.get() {
        let _ = f.write_at(&[b], 0);
    }
}

/// Run code under test; a panic is returned as a value.  While the outermost guarded call runs,
/// the shard's `.lib` flag file reads 'L': a shard killed by a signal (stack overflow, allocation
/// failure) at that moment died *inside the library*, not in an oracle (driver: `<id>:abort`).
pub fn guard<T>(f: impl FnOnce() -> T) -> Result<T, Panicked> {
    if GUARD_DEPTH.with(|d| d.get()) == 0 {
        lib_flag(b'L');
    }
    GUARD_DEPTH.with(|d| d.set(d.get() + 1));
    let r = std::panic::catch_unwind(std::panic::AssertUnwindSafe(f));
    GUARD_DEPTH.with(|d| d.set(d.get() - 1));
    if GUARD_DEPTH.with(|d| d.get()) == 0 {
        lib_flag(b'H');
    }
    r.map_err(|_| Panicked { msg: LAST_PANIC.with(|p| p.borrow_mut().take()).unwrap_or_else(|| "<panic>".into()) })
}

// ------------------------------------------------------------------------------------------------
// property metadata and aggregation
// ------------------------------------------------------------------------------------------------

pub struct PropMeta {
    pub id: &'static str,
    pub level: &'static str,
    pub rule: &'static str,
    pub assumptions: &'static [&'static str],
    /// counters that must be > 0 or the run is inconclusive
    pub required_counters: &'static [&'static str],
    /// minimum distinct non-trivial cases (quick, thorough)
    pub floor: (u64, u64),
    pub shards: (usize, usize),
}

#[derive(Clone, Debug, Serialize, Deserialize)]
pub struct KnownFinding {
    pub property: String,
    pub key: String,
    pub status: String,
    #[serde(default)]
    pub commit: Option<String>,
    pub what: String,
    #[serde(default)]
    pub witness: Option<String>,
}

pub fn verif_dir() -> PathBuf {
    std::env::var("VERIF_DIR").map(PathBuf::from).unwrap_or_else(|_| PathBuf::from("/verif"))
}

pub fn load_known() -> Vec<KnownFinding> {
    let p = verif_dir().join("known_findings.json");
    match std::fs::read_to_string(&p) {
        Ok(s) => serde_json::from_str(&s).unwrap_or_else(|e| panic!("known_findings.json: {e}")),
        Err(_) => vec![],
    }
}

pub struct Outcome {
    pub exit: i32,
    pub lines: Vec<String>,
}

/// Merge shard results, write evidence, decide the verdict.
pub fn aggregate(
    meta: &PropMeta,
    tier: Tier,
    seed: u64,
    shards: Vec<Result<ShardResult, String>>,
    wall_s: f64,
    write_evidence: bool,
) -> Outcome {
    let mut total = ShardResult::default();
    let mut lines = Vec::new();
    let mut exhaustive: Option<bool> = None;
    for s in shards {
        match s {
            Ok(r) => {
                total.evaluations += r.evaluations;
                total.nontrivial.extend(r.nontrivial);
                for (k, v) in r.counters {
                    *total.counters.entry(k).or_insert(0) += v;
                }
                for s in r.samples {
                    if total.samples.len() < 5 {
                        total.samples.push(s);
                    }
                }
                total.violations.extend(r.violations);
                for i in r.inconclusive {
                    if !total.inconclusive.contains(&i) {
                        total.inconclusive.push(i);
                    }
                }
                for n in r.notes {
                    if !total.notes.contains(&n) {
                        total.notes.push(n);
                    }
                }
                if let Some(e) = r.exhaustive {
                    exhaustive = Some(exhaustive.unwrap_or(true) && e);
                }
            }
            Err(e) => total.inconclusive.push(e),
        }
    }
    // floors and required hook/arm observations
    for c in meta.required_counters {
        if total.counters.get(*c).copied().unwrap_or(0) == 0 {
            total.inconclusive.push(format!("required observation `{c}` never made"));
        }
    }
    let floor = tier.pick(meta.floor.0, meta.floor.1);
    // enumerations whose cases are distinct by construction report a count instead of hashes
    let distinct = total.nontrivial.len() as u64 + total.counters.get("distinct_by_construction").copied().unwrap_or(0);
    if distinct < floor {
        total.inconclusive.push(format!("only {distinct} distinct non-trivial cases (floor {floor})"));
    }
    // known findings
    let known = load_known();
    let open: Vec<&KnownFinding> =
        known.iter().filter(|k| k.property == meta.id && k.status == "open").collect();
    let mut by_key: BTreeMap<String, Vec<&Violation>> = BTreeMap::new();
    for v in &total.violations {
        by_key.entry(v.key.clone()).or_default().push(v);
    }
    // the smallest witness first: that is the one written to the replay file
    for vs in by_key.values_mut() {
        vs.sort_by_key(|v| serde_json::to_string(&v.replay).map(|s| s.len()).unwrap_or(usize::MAX));
    }
    let mut unknown = 0usize;
    let mut known_hit = BTreeSet::new();
    for (key, vs) in &by_key {
        if let Some(k) = open.iter().find(|k| &k.key == key) {
            known_hit.insert(k.key.clone());
            continue;
        }
        unknown += 1;
        if unknown <= 20 {
            let dir = verif_dir().join("replays").join(meta.id);
            let _ = std::fs::create_dir_all(&dir);
            let file = dir.join(format!("{:016x}.json", hash_of(key)));
            let body = json!({"property": meta.id, "key": key, "what": vs[0].what, "replay": vs[0].replay});
            let _ = std::fs::write(&file, serde_json::to_string_pretty(&body).unwrap());
            lines.push(format!("VIOLATION property={} replay={}", meta.id, file.display()));
            lines.push(format!("  key={key}"));
            lines.push(format!("  {}", vs[0].what.lines().next().unwrap_or("")));
        }
    }
    for k in &open {
        if known_hit.contains(&k.key) {
            lines.push(format!("KNOWN-FINDING: property={} {} [{}]", meta.id, k.what, k.key));
        } else {
            lines.push(format!(
                "NOTE: known finding `{}` of {} was not reproduced in this run (witness no longer fails?)",
                k.key, meta.id
            ));
        }
    }
    for n in &total.notes {
        lines.push(format!("NOTE: {n}"));
    }
    let exit = if unknown > 0 {
        1
    } else if !total.inconclusive.is_empty() {
        for i in &total.inconclusive {
            lines.push(format!("INCONCLUSIVE property={} reason={}", meta.id, i));
        }
        2
    } else {
        0
    };
    if write_evidence {
        let mut coverage = serde_json::Map::new();
        coverage.insert("evaluations".into(), json!(total.evaluations));
        coverage.insert("distinct_nontrivial".into(), json!(distinct));
        coverage.insert("rule".into(), json!(meta.rule));
        coverage.insert("samples".into(), json!(total.samples));
        if let Some(e) = exhaustive {
            coverage.insert("exhaustive".into(), json!(e));
        }
        coverage.insert("counters".into(), json!(total.counters));
        coverage.insert("known_findings_reproduced".into(), json!(known_hit));
        coverage.insert("violation_keys".into(), json!(by_key.keys().collect::<Vec<_>>()));
        coverage.insert("inconclusive".into(), json!(total.inconclusive));
        coverage.insert("floor_distinct_nontrivial".into(), json!(floor));
        coverage.insert("required_observations".into(), json!(meta.required_counters));
        let ev = json!({
            "property_id": meta.id,
            "tier": tier.name(),
            "seed": seed,
            "level": meta.level,
            "coverage": Value::Object(coverage),
            "assumptions": meta.assumptions,
            "wall_s": (wall_s * 100.0).round() / 100.0,
            "violations": unknown,
            "verdict": match exit { 0 => "held", 1 => "violated", _ => "inconclusive" },
        });
        // diagnostics (tools/coverage.sh) redirect the evidence so that the committed files keep
        // coming from the registered commands only
        let dir = std::env::var("VERIF_EVIDENCE_DIR").map(std::path::PathBuf::from).unwrap_or_else(|_| verif_dir().join("evidence"));
        let _ = std::fs::create_dir_all(&dir);
        std::fs::write(dir.join(format!("{}.json", meta.id)), serde_json::to_string_pretty(&ev).unwrap())
            .expect("write evidence");
    }
    lines.push(format!(
        "{} {} seed={} evaluations={} distinct_nontrivial={} violations={} known={} wall={:.1}s -> {}",
        meta.id,
        tier.name(),
        seed,
        total.evaluations,
        distinct,
        unknown,
        known_hit.len(),
        wall_s,
        match exit {
            0 => "held",
            1 => "VIOLATED",
            _ => "inconclusive",
        }
    ));
    Outcome { exit, lines }
}

//! Thin facade over the public API of the code under test, with panics turned into values and
//! hook events collected.

use crate::cmodel::CModel;
use crate::ev::{guard, Panicked};
use crate::sdesc::SDesc;
use scale_info::PortableRegistry;
use scale_typegen::typegen::ir::ToTokensWithSettings;
use scale_typegen::verif_hooks::Event;
use scale_typegen::{TypeGenerator, TypeGeneratorSettings, TypegenError};
use std::collections::BTreeMap;

pub enum GenOutcome {
    Ok(proc_macro2::TokenStream),
    Err(TypegenError),
    Panic(Panicked),
}

pub struct GenRun {
    pub outcome: GenOutcome,
    pub events: Vec<Event>,
}

pub fn err_kind(e: &TypegenError) -> String {
    match e {
        TypegenError::SynParseError(_) => "SynParseError".into(),
        TypegenError::InvalidFields(_) => "InvalidFields".into(),
        TypegenError::InvalidType(_) => "InvalidType".into(),
        TypegenError::CompactPathNone => "CompactPathNone".into(),
        TypegenError::DecodedBitsPathNone => "DecodedBitsPathNone".into(),
        TypegenError::TypeNotFound(id) => format!("TypeNotFound({id})"),
        TypegenError::InvalidSubstitute(_) => "InvalidSubstitute".into(),
        TypegenError::SettingsValidation(_) => "SettingsValidation".into(),
        TypegenError::DuplicateTypePath(_) => "DuplicateTypePath".into(),
        TypegenError::RegistryTypeIdsInvalid { .. } => "RegistryTypeIdsInvalid".into(),
        _ => "Other".into(),
    }
}

/// `generate_types_mod().to_token_stream(settings)` with hooks recording.
pub fn generate(reg: &PortableRegistry, settings: &TypeGeneratorSettings) -> GenRun {
    scale_typegen::verif_hooks::start();
    let r = guard(|| {
        let g = TypeGenerator::new(reg, settings);
        g.generate_types_mod().map(|m| m.to_token_stream(settings))
    });
    let events = scale_typegen::verif_hooks::take();
    let outcome = match r {
        Ok(Ok(ts)) => GenOutcome::Ok(ts),
        Ok(Err(e)) => GenOutcome::Err(e),
        Err(p) => GenOutcome::Panic(p),
    };
    GenRun { outcome, events }
}

/// `resolve_type_path(id).to_token_stream(settings)`.
pub fn resolve_path(
    reg: &PortableRegistry,
    settings: &TypeGeneratorSettings,
    id: u32,
) -> Result<Result<proc_macro2::TokenStream, TypegenError>, Panicked> {
    guard(|| {
        let g = TypeGenerator::new(reg, settings);
        g.resolve_type_path(id).map(|p| p.to_token_stream(settings))
    })
}

pub fn tally(events: &[Event], into: &mut BTreeMap<String, u64>) {
    for e in events {
        *into.entry(format!("hook[{}]", e.tag)).or_insert(0) += 1;
    }
}

pub struct Generated {
    pub tokens: proc_macro2::TokenStream,
    pub cm: CModel,
}

/// Generate and parse; `Err` carries a short classification.
pub fn generate_model(reg: &PortableRegistry, d: &SDesc) -> (Result<Generated, String>, Vec<Event>) {
    // building the settings goes through the public builder API too: a rule or registration the
    // descriptor knows to be valid must not be refused
    let settings = match guard(|| d.build()) {
        Ok(s) => s,
        Err(p) => return (Err(format!("settings-refused:{}", p.msg.chars().take(160).collect::<String>())), Vec::new()),
    };
    let run = generate(reg, &settings);
    let r = match run.outcome {
        GenOutcome::Ok(ts) => match CModel::parse(ts.clone()) {
            Ok(cm) => Ok(Generated { tokens: ts, cm }),
            Err(e) => Err(format!("unparsable: {e}")),
        },
        GenOutcome::Err(e) => Err(format!("error:{}", err_kind(&e))),
        GenOutcome::Panic(p) => Err(format!("panic:{}", p.signature())),
    };
    (r, run.events)
}

//! Code model: an interpreter for the tokens the generator emits (DESIGN.md 4.2). Parses the
//! emitted module with syn into a map absolute path -> item and classifies type expressions.

use crate::sdesc::SDesc;
use quote::ToTokens;
use scale_info::TypeDefPrimitive;
use std::collections::{BTreeMap, BTreeSet, HashMap};
use syn::visit_mut::VisitMut;

#[derive(Clone, Copy, Debug, PartialEq, Eq)]
pub enum FStyle {
    Named,
    Unnamed,
    Unit,
}

#[derive(Clone, Debug)]
pub struct FieldM {
    pub name: Option<String>,
    pub ty: syn::Type,
    pub compact: bool,
    pub skip: bool,
    pub attrs: Vec<String>,
    pub docs: Vec<String>,
    pub is_pub: bool,
}

#[derive(Clone, Debug)]
pub struct FieldsM {
    pub style: FStyle,
    pub fields: Vec<FieldM>,
}

#[derive(Clone, Debug)]
pub struct VariantM {
    pub name: String,
    pub index: Option<u8>,
    pub fields: FieldsM,
    pub docs: Vec<String>,
    pub attrs: Vec<String>,
}

#[derive(Clone, Debug)]
pub enum ItemKind {
    Struct(FieldsM),
    Enum(Vec<VariantM>),
}

#[derive(Clone, Debug)]
pub struct Item {
    /// absolute path including the root module ident
    pub path: Vec<String>,
    pub generics: Vec<String>,
    pub kind: ItemKind,
    /// derive paths as written, whitespace-free, in emitted order (per derive attribute)
    pub derive_lists: Vec<Vec<String>>,
    /// the same with the token spacing of `quote!(#path).to_string()` (the sort key the generator uses)
    pub derive_lists_raw: Vec<Vec<String>>,
    /// every other non-doc outer attribute, whitespace-normalised token string, in order
    pub attrs: Vec<String>,
    pub docs: Vec<String>,
    /// token string of the whole item
    pub tokens: String,
}

impl Item {
    pub fn derives(&self) -> Vec<String> {
        self.derive_lists.iter().flatten().cloned().collect()
    }
}

#[derive(Clone, Debug, Default)]
pub struct CModel {
    pub root: String,
    pub items: BTreeMap<Vec<String>, Item>,
    /// absolute module paths, root included
    pub modules: BTreeSet<Vec<String>>,
    /// structural problems found while reading the module tree (C02)
    pub problems: Vec<String>,
}

pub fn ts(t: &impl ToTokens) -> String {
    t.to_token_stream().to_string()
}

pub fn nows(s: &str) -> String {
    s.chars().filter(|c| !c.is_whitespace()).collect()
}

fn doc_of(attr: &syn::Attribute) -> Option<String> {
    if !attr.path().is_ident("doc") {
        return None;
    }
    if let syn::Meta::NameValue(nv) = &attr.meta {
        if let syn::Expr::Lit(syn::ExprLit { lit: syn::Lit::Str(s), .. }) = &nv.value {
            return Some(s.value());
        }
    }
    Some(ts(attr))
}

struct AttrInfo {
    docs: Vec<String>,
    derive_lists: Vec<Vec<String>>,
    derive_lists_raw: Vec<Vec<String>>,
    others: Vec<String>,
    compact: bool,
    skip: bool,
    index: Option<u8>,
}

fn read_attrs(attrs: &[syn::Attribute]) -> AttrInfo {
    let mut out =
        AttrInfo { docs: vec![], derive_lists: vec![], derive_lists_raw: vec![], others: vec![], compact: false, skip: false, index: None };
    for a in attrs {
        if let Some(d) = doc_of(a) {
            out.docs.push(d);
            continue;
        }
        if a.path().is_ident("derive") {
            let mut list = Vec::new();
            let mut raw = Vec::new();
            if let Ok(paths) =
                a.parse_args_with(syn::punctuated::Punctuated::<syn::Path, syn::Token![,]>::parse_terminated)
            {
                for p in paths {
                    list.push(nows(&ts(&p)));
                    raw.push(ts(&p));
                }
            } else {
                list.push(format!("<unparsed:{}>", ts(a)));
            }
            out.derive_lists.push(list);
            out.derive_lists_raw.push(raw);
            continue;
        }
        if a.path().is_ident("codec") {
            let inner = a.meta.require_list().map(|l| nows(&l.tokens.to_string())).unwrap_or_default();
            if inner == "compact" {
                out.compact = true;
            } else if inner == "skip" {
                out.skip = true;
            } else if let Some(rest) = inner.strip_prefix("index=") {
                out.index = rest.parse::<u8>().ok();
                if out.index.is_none() {
                    out.others.push(ts(a));
                }
            } else {
                out.others.push(ts(a));
                continue;
            }
            // generator-emitted codec attributes are also listed, tagged
            out.others.push(format!("@gen {}", ts(a)));
            continue;
        }
        out.others.push(ts(a));
    }
    out
}

fn read_fields(fields: &syn::Fields) -> FieldsM {
    let style = match fields {
        syn::Fields::Named(_) => FStyle::Named,
        syn::Fields::Unnamed(_) => FStyle::Unnamed,
        syn::Fields::Unit => FStyle::Unit,
    };
    let fields = fields
        .iter()
        .map(|f| {
            let ai = read_attrs(&f.attrs);
            FieldM {
                name: f.ident.as_ref().map(|i| i.to_string()),
                ty: f.ty.clone(),
                compact: ai.compact,
                skip: ai.skip,
                attrs: ai.others,
                docs: ai.docs,
                is_pub: matches!(f.vis, syn::Visibility::Public(_)),
            }
        })
        .collect();
    FieldsM { style, fields }
}

fn generics_of(g: &syn::Generics, problems: &mut Vec<String>, at: &str) -> Vec<String> {
    let mut out = Vec::new();
    for p in &g.params {
        match p {
            syn::GenericParam::Type(t) => out.push(t.ident.to_string()),
            other => problems.push(format!("{at}: unexpected generic parameter {}", ts(other))),
        }
    }
    out
}

impl CModel {
    /// Parse the tokens of `module.to_token_stream(settings)`.
    pub fn parse(tokens: proc_macro2::TokenStream) -> Result<CModel, String> {
        let file: syn::File = syn::parse2(tokens).map_err(|e| format!("does not parse as a Rust file: {e}"))?;
        let mut m = CModel::default();
        if file.items.len() != 1 {
            return Err(format!("expected exactly one root module, found {} items", file.items.len()));
        }
        let syn::Item::Mod(root) = &file.items[0] else {
            return Err("root item is not a module".into());
        };
        m.root = root.ident.to_string();
        let root_name = m.root.clone();
        m.read_mod(root, vec![], &root_name);
        Ok(m)
    }

    fn read_mod(&mut self, md: &syn::ItemMod, parent: Vec<String>, root: &str) {
        let mut path = parent;
        path.push(md.ident.to_string());
        if !matches!(md.vis, syn::Visibility::Public(_)) {
            self.problems.push(format!("module {} is not pub", path.join("::")));
        }
        if !self.modules.insert(path.clone()) {
            self.problems.push(format!("duplicate module {}", path.join("::")));
        }
        let Some((_, items)) = &md.content else {
            self.problems.push(format!("module {} has no body", path.join("::")));
            return;
        };
        let mut type_ns: BTreeSet<String> = BTreeSet::new();
        let mut saw_use = false;
        for it in items {
            match it {
                syn::Item::Use(u) => {
                    let s = nows(&ts(u));
                    if s != format!("usesuper::{root};") {
                        self.problems.push(format!("unexpected use in {}: {}", path.join("::"), ts(u)));
                    }
                    saw_use = true;
                    // `use super::root` brings `root` into the type namespace of this module
                    if !type_ns.insert(root.to_string()) {
                        self.problems.push(format!("name {root} defined twice in {}", path.join("::")));
                    }
                }
                syn::Item::Mod(child) => {
                    if !type_ns.insert(child.ident.to_string()) {
                        self.problems.push(format!(
                            "name {} defined twice in module {} (type namespace)",
                            child.ident,
                            path.join("::")
                        ));
                    }
                    self.read_mod(child, path.clone(), root);
                }
                syn::Item::Struct(s) => {
                    let name = s.ident.to_string();
                    if !type_ns.insert(name.clone()) {
                        self.problems.push(format!(
                            "name {name} defined twice in module {} (type namespace)",
                            path.join("::")
                        ));
                    }
                    let mut ip = path.clone();
                    ip.push(name);
                    let at = ip.join("::");
                    let ai = read_attrs(&s.attrs);
                    if !matches!(s.vis, syn::Visibility::Public(_)) {
                        self.problems.push(format!("{at} is not pub"));
                    }
                    let item = Item {
                        path: ip.clone(),
                        generics: generics_of(&s.generics, &mut self.problems, &at),
                        kind: ItemKind::Struct(read_fields(&s.fields)),
                        derive_lists: ai.derive_lists,
                        derive_lists_raw: ai.derive_lists_raw,
                        attrs: ai.others,
                        docs: ai.docs,
                        tokens: ts(s),
                    };
                    self.items.insert(ip, item);
                }
                syn::Item::Enum(e) => {
                    let name = e.ident.to_string();
                    if !type_ns.insert(name.clone()) {
                        self.problems.push(format!(
                            "name {name} defined twice in module {} (type namespace)",
                            path.join("::")
                        ));
                    }
                    let mut ip = path.clone();
                    ip.push(name);
                    let at = ip.join("::");
                    let ai = read_attrs(&e.attrs);
                    if !matches!(e.vis, syn::Visibility::Public(_)) {
                        self.problems.push(format!("{at} is not pub"));
                    }
                    let mut vnames = BTreeSet::new();
                    let variants = e
                        .variants
                        .iter()
                        .map(|v| {
                            let vi = read_attrs(&v.attrs);
                            if !vnames.insert(v.ident.to_string()) {
                                self.problems.push(format!("{at}: duplicate variant {}", v.ident));
                            }
                            if v.discriminant.is_some() {
                                self.problems.push(format!("{at}: variant {} has a discriminant", v.ident));
                            }
                            VariantM {
                                name: v.ident.to_string(),
                                index: vi.index,
                                fields: read_fields(&v.fields),
                                docs: vi.docs,
                                attrs: vi.others,
                            }
                        })
                        .collect();
                    let item = Item {
                        path: ip.clone(),
                        generics: generics_of(&e.generics, &mut self.problems, &at),
                        kind: ItemKind::Enum(variants),
                        derive_lists: ai.derive_lists,
                        derive_lists_raw: ai.derive_lists_raw,
                        attrs: ai.others,
                        docs: ai.docs,
                        tokens: ts(e),
                    };
                    self.items.insert(ip, item);
                }
                other => self.problems.push(format!("unexpected item in {}: {}", path.join("::"), ts(other))),
            }
        }
        if !saw_use {
            self.problems.push(format!("module {} lacks `use super::{root}`", path.join("::")));
        }
    }
}

// ------------------------------------------------------------------------------------------------
// Type classification
// ------------------------------------------------------------------------------------------------

#[derive(Clone, Debug)]
pub enum CHead {
    Prim(TypeDefPrimitive),
    Vec(syn::Type),
    /// VecDeque / LinkedList: same wire form as Vec
    SeqLike(String, syn::Type),
    Array(syn::Type, u64),
    Tuple(Vec<syn::Type>),
    Box(syn::Type),
    Compact(syn::Type),
    Bits(syn::Type, syn::Type),
    /// Option, Result, BTreeMap, BTreeSet, BinaryHeap, Range, RangeInclusive, NonZero*, Duration, Cow
    Builtin(String, Vec<syn::Type>),
    Phantom(Vec<syn::Type>),
    Item(Vec<String>, Vec<syn::Type>),
    /// bare single identifier (a generic parameter such as `_0`, or an undefined name)
    Ident(String),
    /// anything else: substitute targets and unknown paths (with the type arguments written
    /// anywhere in the path)
    Other(String, Vec<syn::Type>),
    /// not a syntactically acceptable type form
    Bad(String),
}

pub struct Classifier {
    pub root: String,
    pub alloc: Vec<String>,
    pub compact: Option<Vec<String>>,
    pub bits: Option<Vec<String>>,
}

fn path_key(p: &syn::Path) -> Vec<String> {
    let mut v = Vec::new();
    if p.leading_colon.is_some() {
        v.push(String::new());
    }
    v.extend(p.segments.iter().map(|s| s.ident.to_string()));
    v
}

fn str_key(s: &str) -> Vec<String> {
    path_key(&crate::sdesc::p(s))
}

/// every type argument written in any segment of a path
pub fn all_type_args(p: &syn::Path) -> Vec<syn::Type> {
    let mut out = Vec::new();
    for seg in &p.segments {
        if let syn::PathArguments::AngleBracketed(a) = &seg.arguments {
            for g in &a.args {
                if let syn::GenericArgument::Type(t) = g {
                    out.push(t.clone());
                }
            }
        }
    }
    out
}

pub fn last_args(p: &syn::Path) -> Result<Vec<syn::Type>, String> {
    // only the last segment may carry arguments
    for (i, seg) in p.segments.iter().enumerate() {
        if i + 1 != p.segments.len() && !seg.arguments.is_empty() {
            return Err(format!("arguments on inner segment of {}", ts(p)));
        }
    }
    match &p.segments.last().unwrap().arguments {
        syn::PathArguments::None => Ok(vec![]),
        syn::PathArguments::AngleBracketed(a) => a
            .args
            .iter()
            .map(|g| match g {
                syn::GenericArgument::Type(t) => Ok(t.clone()),
                other => Err(format!("non-type generic argument {}", ts(other))),
            })
            .collect(),
        syn::PathArguments::Parenthesized(_) => Err(format!("parenthesised arguments in {}", ts(p))),
    }
}

const PRIMS: [(&str, TypeDefPrimitive); 13] = [
    ("bool", TypeDefPrimitive::Bool),
    ("char", TypeDefPrimitive::Char),
    ("u8", TypeDefPrimitive::U8),
    ("u16", TypeDefPrimitive::U16),
    ("u32", TypeDefPrimitive::U32),
    ("u64", TypeDefPrimitive::U64),
    ("u128", TypeDefPrimitive::U128),
    ("i8", TypeDefPrimitive::I8),
    ("i16", TypeDefPrimitive::I16),
    ("i32", TypeDefPrimitive::I32),
    ("i64", TypeDefPrimitive::I64),
    ("i128", TypeDefPrimitive::I128),
    ("str", TypeDefPrimitive::Str),
];

impl Classifier {
    pub fn new(d: &SDesc) -> Self {
        Classifier {
            root: d.root.clone(),
            alloc: str_key(&d.alloc_str()),
            compact: d.compact_path.as_deref().map(str_key),
            bits: d.bits_path.as_deref().map(str_key),
        }
    }

    fn alloc_path(&self, tail: &[&str]) -> Vec<String> {
        let mut v = self.alloc.clone();
        v.extend(tail.iter().map(|s| s.to_string()));
        v
    }

    pub fn classify(&self, ty: &syn::Type) -> CHead {
        match ty {
            syn::Type::Paren(p) => self.classify(&p.elem),
            syn::Type::Group(g) => self.classify(&g.elem),
            syn::Type::Array(a) => {
                let n = match &a.len {
                    syn::Expr::Lit(syn::ExprLit { lit: syn::Lit::Int(i), .. }) => i.base10_parse::<u64>().ok(),
                    _ => None,
                };
                match n {
                    Some(n) => CHead::Array((*a.elem).clone(), n),
                    None => CHead::Bad(format!("array length {}", ts(&a.len))),
                }
            }
            syn::Type::Tuple(t) => CHead::Tuple(t.elems.iter().cloned().collect()),
            syn::Type::Path(tp) => {
                if tp.qself.is_some() {
                    return CHead::Bad(format!("qualified self type {}", ts(tp)));
                }
                let p = &tp.path;
                let key = path_key(p);
                let args = match last_args(p) {
                    Ok(a) => a,
                    Err(e) => {
                        // only foreign (substitute target) paths may carry arguments elsewhere
                        if p.leading_colon.is_some() || p.segments.first().map(|s| s.ident == "crate").unwrap_or(false) {
                            return CHead::Other(nows(&ts(tp)), all_type_args(p));
                        }
                        return CHead::Bad(e);
                    }
                };
                let k: Vec<&str> = key.iter().map(|s| s.as_str()).collect();
                // ::core::primitive::X
                if k.len() == 4 && k[0].is_empty() && k[1] == "core" && k[2] == "primitive" {
                    if let Some((_, p)) = PRIMS.iter().find(|(n, _)| *n == k[3]) {
                        if args.is_empty() && *p != TypeDefPrimitive::Str {
                            return CHead::Prim(p.clone());
                        }
                    }
                    return CHead::Bad(format!("unknown primitive path {}", ts(tp)));
                }
                let one = |args: &[syn::Type]| -> Option<syn::Type> { (args.len() == 1).then(|| args[0].clone()) };
                if key == self.alloc_path(&["string", "String"]) && args.is_empty() {
                    return CHead::Prim(TypeDefPrimitive::Str);
                }
                if key == self.alloc_path(&["vec", "Vec"]) {
                    return one(&args).map(CHead::Vec).unwrap_or(CHead::Bad(format!("Vec arity in {}", ts(tp))));
                }
                if key == self.alloc_path(&["boxed", "Box"]) {
                    return one(&args).map(CHead::Box).unwrap_or(CHead::Bad(format!("Box arity in {}", ts(tp))));
                }
                for name in ["BTreeMap", "BTreeSet", "BinaryHeap", "VecDeque", "LinkedList"] {
                    if key == self.alloc_path(&["collections", name]) {
                        let want = if name == "BTreeMap" { 2 } else { 1 };
                        if args.len() != want {
                            return CHead::Bad(format!("{name} arity in {}", ts(tp)));
                        }
                        if name == "VecDeque" || name == "LinkedList" {
                            return CHead::SeqLike(name.into(), args[0].clone());
                        }
                        return CHead::Builtin(name.into(), args);
                    }
                }
                if key == self.alloc_path(&["borrow", "Cow"]) {
                    return CHead::Builtin("Cow".into(), args);
                }
                if k.len() == 4 && k[0].is_empty() && k[1] == "core" {
                    match (k[2], k[3]) {
                        ("option", "Option") if args.len() == 1 => return CHead::Builtin("Option".into(), args),
                        ("result", "Result") if args.len() == 2 => return CHead::Builtin("Result".into(), args),
                        ("ops", "Range") if args.len() == 1 => return CHead::Builtin("Range".into(), args),
                        ("ops", "RangeInclusive") if args.len() == 1 => {
                            return CHead::Builtin("RangeInclusive".into(), args)
                        }
                        ("time", "Duration") if args.is_empty() => return CHead::Builtin("Duration".into(), args),
                        ("marker", "PhantomData") => return CHead::Phantom(args),
                        ("num", n) if n.starts_with("NonZero") && args.is_empty() => {
                            return CHead::Builtin(n.to_string(), args)
                        }
                        _ => return CHead::Bad(format!("unknown or mis-applied core path {}", ts(tp))),
                    }
                }
                if Some(&key) == self.compact.as_ref() && args.len() == 1 {
                    return CHead::Compact(args[0].clone());
                }
                if Some(&key) == self.bits.as_ref() && args.len() == 2 {
                    return CHead::Bits(args[0].clone(), args[1].clone());
                }
                if p.leading_colon.is_none() && key.first().map(|s| s.as_str()) == Some(self.root.as_str()) {
                    return CHead::Item(key, args);
                }
                if p.leading_colon.is_none() && key.len() == 1 && args.is_empty() {
                    return CHead::Ident(key[0].clone());
                }
                CHead::Other(nows(&ts(tp)), all_type_args(p))
            }
            other => CHead::Bad(format!("unexpected type form {}", ts(other))),
        }
    }
}

/// Substitute bare identifiers by types.
pub struct Subst<'a>(pub &'a HashMap<String, syn::Type>);

impl VisitMut for Subst<'_> {
    fn visit_type_mut(&mut self, t: &mut syn::Type) {
        if let syn::Type::Path(tp) = t {
            if tp.qself.is_none() && tp.path.leading_colon.is_none() && tp.path.segments.len() == 1 {
                let seg = &tp.path.segments[0];
                if seg.arguments.is_empty() {
                    if let Some(rep) = self.0.get(&seg.ident.to_string()) {
                        *t = rep.clone();
                        return;
                    }
                }
            }
        }
        syn::visit_mut::visit_type_mut(self, t);
    }
}

pub fn subst_type(t: &syn::Type, env: &HashMap<String, syn::Type>) -> syn::Type {
    if env.is_empty() {
        return t.clone();
    }
    let mut t = t.clone();
    Subst(env).visit_type_mut(&mut t);
    t
}

pub fn env_of(item: &Item, args: &[syn::Type]) -> HashMap<String, syn::Type> {
    item.generics.iter().cloned().zip(args.iter().cloned()).collect()
}

/// Collect every type expression written in an item (field types).
pub fn item_field_types(item: &Item) -> Vec<&syn::Type> {
    match &item.kind {
        ItemKind::Struct(f) => f.fields.iter().map(|f| &f.ty).collect(),
        ItemKind::Enum(vs) => vs.iter().flat_map(|v| v.fields.fields.iter().map(|f| &f.ty)).collect(),
    }
}

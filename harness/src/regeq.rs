//! The oracle's own "same-shaped" relation between two registry entries (DESIGN.md 6 C04): E1 ~ E2
//! iff one generic definition instantiates to both, i.e. they are structurally equal where
//! positions holding the i-th parameter of E1 may correspond to positions holding the i-th
//! parameter of E2. Greatest relation, computed coinductively over visited pairs. Independent of
//! /repo's `types_equal`.

use scale_info::{form::PortableForm, Field, PortableRegistry, TypeDef};
use std::collections::HashSet;

pub struct RegEq<'a> {
    pub reg: &'a PortableRegistry,
    pa: Vec<Option<u32>>,
    pb: Vec<Option<u32>>,
    /// visited pairs, together with the parameters in scope when they were visited (whether two
    /// ids are equal depends on which parameters may explain a difference)
    visited: HashSet<(u32, u32, Vec<Option<u32>>, Vec<Option<u32>>)>,
    at_root: bool,
    /// compare variant indices (wire-relevant) — always on
    pub steps: usize,
}

pub fn reg_equiv(reg: &PortableRegistry, a: u32, b: u32) -> bool {
    let (Some(ta), Some(tb)) = (reg.resolve(a), reg.resolve(b)) else { return false };
    if ta.type_params.len() != tb.type_params.len() {
        return false;
    }
    // a skipped parameter on one side only is a different definition
    if ta.type_params.iter().zip(tb.type_params.iter()).any(|(x, y)| x.ty.is_some() != y.ty.is_some() || x.name != y.name) {
        return false;
    }
    let mut r = RegEq {
        reg,
        pa: ta.type_params.iter().map(|p| p.ty.map(|t| t.id)).collect(),
        pb: tb.type_params.iter().map(|p| p.ty.map(|t| t.id)).collect(),
        visited: HashSet::new(),
        at_root: true,
        steps: 0,
    };
    r.eq_root(a, b)
}

impl<'a> RegEq<'a> {
    fn eq_root(&mut self, a: u32, b: u32) -> bool {
        // the roots themselves are compared structurally even if they coincide with a parameter
        self.structural(a, b)
    }

    fn eq(&mut self, a: u32, b: u32) -> bool {
        if a == b {
            return true;
        }
        for i in 0..self.pa.len() {
            if self.pa[i] == Some(a) && self.pb[i] == Some(b) {
                return true;
            }
        }
        self.structural(a, b)
    }

    fn structural(&mut self, a: u32, b: u32) -> bool {
        if a == b {
            return true;
        }
        // the root pair is compared up to its own arguments; a nested occurrence of the same pair
        // must have its arguments lined up, so the root is not noted
        if !self.at_root && !self.visited.insert((a, b, self.pa.clone(), self.pb.clone())) {
            return true;
        }
        self.steps += 1;
        let (Some(ta), Some(tb)) = (self.reg.resolve(a), self.reg.resolve(b)) else { return false };
        if ta.path.segments != tb.path.segments {
            return false;
        }
        // the recorded generic arguments of a nested type are part of the definition that
        // mentions it (the emitted field type names them), even when they are not on the wire
        if !self.at_root {
            if ta.type_params.len() != tb.type_params.len() {
                return false;
            }
            let pairs: Vec<(Option<u32>, Option<u32>)> = ta
                .type_params
                .iter()
                .zip(tb.type_params.iter())
                .map(|(x, y)| (x.ty.map(|t| t.id), y.ty.map(|t| t.id)))
                .collect();
            for (x, y) in pairs {
                match (x, y) {
                    (Some(x), Some(y)) => {
                        if !self.eq(x, y) {
                            return false;
                        }
                    }
                    (None, None) => {}
                    _ => return false,
                }
            }
        }
        let was_root = self.at_root;
        self.at_root = false;
        // one item is emitted per path, generic over ITS OWN parameters: inside a nested struct or
        // enum only its own parameters (lined up above against the parameters in scope) can explain
        // a difference, not those of the enclosing definition
        let named = matches!(ta.type_def, TypeDef::Composite(_) | TypeDef::Variant(_));
        let saved = if named && !was_root {
            let own_a: Vec<Option<u32>> = ta.type_params.iter().map(|p| p.ty.map(|t| t.id)).collect();
            let own_b: Vec<Option<u32>> = tb.type_params.iter().map(|p| p.ty.map(|t| t.id)).collect();
            Some((std::mem::replace(&mut self.pa, own_a), std::mem::replace(&mut self.pb, own_b)))
        } else {
            None
        };
        let res = self.content(a, b);
        if let Some((pa, pb)) = saved {
            self.pa = pa;
            self.pb = pb;
        }
        res
    }

    fn content(&mut self, a: u32, b: u32) -> bool {
        let (Some(ta), Some(tb)) = (self.reg.resolve(a), self.reg.resolve(b)) else { return false };
        match (&ta.type_def, &tb.type_def) {
            (TypeDef::Composite(x), TypeDef::Composite(y)) => self.fields(&x.fields, &y.fields),
            (TypeDef::Variant(x), TypeDef::Variant(y)) => {
                x.variants.len() == y.variants.len()
                    && x.variants.iter().zip(y.variants.iter()).all(|(v, w)| {
                        v.name == w.name && v.index == w.index && self.fields(&v.fields, &w.fields)
                    })
            }
            (TypeDef::Sequence(x), TypeDef::Sequence(y)) => self.eq(x.type_param.id, y.type_param.id),
            (TypeDef::Array(x), TypeDef::Array(y)) => x.len == y.len && self.eq(x.type_param.id, y.type_param.id),
            (TypeDef::Tuple(x), TypeDef::Tuple(y)) => {
                x.fields.len() == y.fields.len()
                    && x.fields.iter().zip(y.fields.iter()).all(|(f, g)| self.eq(f.id, g.id))
            }
            (TypeDef::Primitive(x), TypeDef::Primitive(y)) => x == y,
            (TypeDef::Compact(x), TypeDef::Compact(y)) => self.eq(x.type_param.id, y.type_param.id),
            (TypeDef::BitSequence(x), TypeDef::BitSequence(y)) => {
                self.eq(x.bit_store_type.id, y.bit_store_type.id) && self.eq(x.bit_order_type.id, y.bit_order_type.id)
            }
            _ => false,
        }
    }

    fn fields(&mut self, x: &[Field<PortableForm>], y: &[Field<PortableForm>]) -> bool {
        x.len() == y.len()
            && x.iter().zip(y.iter()).all(|(f, g)| {
                f.name == g.name && {
                    // Box is visible only in the recorded type name; it changes the emitted field
                    let bf = f.type_name.as_deref().map(|t| t.contains("Box<")).unwrap_or(false);
                    let bg = g.type_name.as_deref().map(|t| t.contains("Box<")).unwrap_or(false);
                    bf == bg && self.eq(f.ty.id, g.ty.id)
                }
            })
    }
}

/// Partition ids into classes of the (reflexive, symmetric) relation by first-fit, in order.
pub fn classes(reg: &PortableRegistry, ids: &[u32]) -> Vec<Vec<u32>> {
    let mut out: Vec<Vec<u32>> = Vec::new();
    for id in ids {
        let mut placed = false;
        for g in out.iter_mut() {
            if reg_equiv(reg, g[0], *id) && reg_equiv(reg, *id, g[0]) {
                g.push(*id);
                placed = true;
                break;
            }
        }
        if !placed {
            out.push(vec![*id]);
        }
    }
    out
}

//! SCALE reference codec over shapes (DESIGN.md 4.4): a registry-directed generator of valid
//! encodings (hits compact-mode boundaries, empty/long sequences, every variant) and a decoder /
//! re-encoder that interprets the *code* type (CModel). Written from the SCALE specification;
//! calls nothing in /repo.

use crate::cmodel::*;
use rand::Rng;
use scale_info::{PortableRegistry, TypeDef, TypeDefPrimitive};
use std::collections::HashMap;

// ---------------------------------------------------------------------------------------------
// compact integers
// ---------------------------------------------------------------------------------------------

pub fn compact_encode(v: u128, out: &mut Vec<u8>) {
    if v < 1 << 6 {
        out.push((v as u8) << 2);
    } else if v < 1 << 14 {
        out.extend_from_slice(&(((v as u16) << 2) | 1).to_le_bytes());
    } else if v < 1 << 30 {
        out.extend_from_slice(&(((v as u32) << 2) | 2).to_le_bytes());
    } else {
        let bytes = v.to_le_bytes();
        let n = 16 - (v.leading_zeros() / 8) as usize;
        let n = n.max(4);
        out.push((((n - 4) as u8) << 2) | 3);
        out.extend_from_slice(&bytes[..n]);
    }
}

/// Decode a compact integer; rejects non-canonical encodings (as parity-scale-codec does).
pub fn compact_decode(input: &mut &[u8]) -> Result<u128, String> {
    let first = *input.first().ok_or("eof in compact")?;
    let take = |input: &mut &[u8], n: usize| -> Result<Vec<u8>, String> {
        if input.len() < n {
            return Err("eof in compact".into());
        }
        let (a, b) = input.split_at(n);
        *input = b;
        Ok(a.to_vec())
    };
    let v = match first & 3 {
        0 => {
            take(input, 1)?;
            (first >> 2) as u128
        }
        1 => {
            let b = take(input, 2)?;
            let v = (u16::from_le_bytes([b[0], b[1]]) >> 2) as u128;
            if v < 1 << 6 {
                return Err("non-canonical compact".into());
            }
            v
        }
        2 => {
            let b = take(input, 4)?;
            let v = (u32::from_le_bytes([b[0], b[1], b[2], b[3]]) >> 2) as u128;
            if v < 1 << 14 {
                return Err("non-canonical compact".into());
            }
            v
        }
        _ => {
            let n = (first >> 2) as usize + 4;
            take(input, 1)?;
            if n > 16 {
                return Err("compact wider than 128 bits".into());
            }
            let b = take(input, n)?;
            let mut buf = [0u8; 16];
            buf[..n].copy_from_slice(&b);
            let v = u128::from_le_bytes(buf);
            if v < 1 << 30 || (n > 4 && b[n - 1] == 0) {
                return Err("non-canonical compact".into());
            }
            v
        }
    };
    Ok(v)
}

fn prim_width(p: &TypeDefPrimitive) -> Option<usize> {
    Some(match p {
        TypeDefPrimitive::Bool | TypeDefPrimitive::U8 | TypeDefPrimitive::I8 => 1,
        TypeDefPrimitive::U16 | TypeDefPrimitive::I16 => 2,
        TypeDefPrimitive::U32 | TypeDefPrimitive::I32 | TypeDefPrimitive::Char => 4,
        TypeDefPrimitive::U64 | TypeDefPrimitive::I64 => 8,
        TypeDefPrimitive::U128 | TypeDefPrimitive::I128 => 16,
        TypeDefPrimitive::U256 | TypeDefPrimitive::I256 => 32,
        TypeDefPrimitive::Str => return None,
    })
}

fn uint_bits(p: &TypeDefPrimitive) -> Option<u32> {
    Some(match p {
        TypeDefPrimitive::U8 => 8,
        TypeDefPrimitive::U16 => 16,
        TypeDefPrimitive::U32 => 32,
        TypeDefPrimitive::U64 => 64,
        TypeDefPrimitive::U128 => 128,
        _ => return None,
    })
}

// ---------------------------------------------------------------------------------------------
// registry-directed generator of valid encodings
// ---------------------------------------------------------------------------------------------

pub struct EncGen<'a, R: Rng> {
    pub reg: &'a PortableRegistry,
    pub rng: &'a mut R,
    /// keep BTreeSet / BTreeMap contents sorted-unique and heaps trivially ordered (needed when
    /// the bytes are fed to real collection types)
    pub canonical_collections: bool,
    pub budget: usize,
    /// set when a `Compact<()>`-like (zero byte) compact was produced: third-party decoders refuse it
    pub saw_unit_compact: bool,
    pub steps: usize,
}

const BOUNDARIES: [u128; 12] =
    [0, 1, 63, 64, 255, 256, 16383, 16384, (1 << 30) - 1, 1 << 30, u32::MAX as u128, (1u128 << 32) + 5];

impl<'a, R: Rng> EncGen<'a, R> {
    fn uint_value(&mut self, bits: u32) -> u128 {
        let max = if bits == 128 { u128::MAX } else { (1u128 << bits) - 1 };
        match self.rng.gen_range(0..4) {
            0 => (*BOUNDARIES.get(self.rng.gen_range(0..BOUNDARIES.len())).unwrap()).min(max),
            1 => max,
            2 => max >> self.rng.gen_range(0..bits),
            _ => self.rng.gen::<u128>() & max,
        }
    }

    /// The unsigned primitive a compact ultimately wraps (through single-field composites); None
    /// for `Compact<()>`-like cases (zero bytes) is signalled by Ok(None).
    fn compact_target(&self, id: u32, depth: usize) -> Result<Option<u32>, String> {
        if depth > 8 {
            return Err("compact nesting".into());
        }
        let t = self.reg.resolve(id).ok_or("missing id")?;
        match &t.type_def {
            TypeDef::Primitive(p) => uint_bits(p).map(Some).ok_or_else(|| "compact over non-uint primitive".to_string()),
            TypeDef::Composite(c) if c.fields.len() == 1 => self.compact_target(c.fields[0].ty.id, depth + 1),
            TypeDef::Tuple(t) if t.fields.is_empty() => Ok(None),
            TypeDef::Tuple(t) if t.fields.len() == 1 => self.compact_target(t.fields[0].id, depth + 1),
            TypeDef::Composite(c) if c.fields.is_empty() => Ok(None),
            _ => Err("compact over unsupported type".into()),
        }
    }

    fn seq_len(&mut self, depth: usize) -> usize {
        if depth > 4 || self.budget == 0 {
            return 0;
        }
        match self.rng.gen_range(0..10) {
            0 | 1 => 0,
            2..=5 => 1,
            6 | 7 => 2,
            8 => 3,
            _ => {
                if depth <= 1 {
                    65
                } else {
                    4
                }
            }
        }
    }

    /// Append a valid encoding of type `id`. Err = the type is uninhabited / unsupported.
    pub fn gen(&mut self, id: u32, depth: usize, out: &mut Vec<u8>) -> Result<(), String> {
        if depth > 60 {
            return Err("too deep".into());
        }
        self.steps += 1;
        if self.steps > 50_000 {
            return Err("step budget exhausted".into());
        }
        self.budget = self.budget.saturating_sub(1);
        let t = self.reg.resolve(id).ok_or_else(|| format!("missing id {id}"))?;
        let single = t.path.segments.len() == 1;
        let pname = if single { t.path.segments[0].as_str() } else { "" };
        match &t.type_def {
            TypeDef::Primitive(p) => {
                match p {
                    TypeDefPrimitive::Bool => out.push(self.rng.gen_range(0..2)),
                    TypeDefPrimitive::Char => {
                        let c = ['a', 'Z', '\0', 'é', '\u{10FFFF}', '\u{D7FF}'][self.rng.gen_range(0..6)];
                        out.extend_from_slice(&(c as u32).to_le_bytes());
                    }
                    TypeDefPrimitive::Str => {
                        let s = ["", "a", "héllo", "The quick brown fox jumps over the lazy dog, twice over. 0123456789"]
                            [self.rng.gen_range(0..4)];
                        compact_encode(s.len() as u128, out);
                        out.extend_from_slice(s.as_bytes());
                    }
                    other => {
                        let w = prim_width(other).unwrap();
                        let bits = (w * 8) as u32;
                        let v = self.uint_value(bits.min(128));
                        let mut bytes = v.to_le_bytes().to_vec();
                        bytes.resize(w.max(16), 0);
                        if w == 32 {
                            bytes.resize(32, self.rng.gen());
                        }
                        out.extend_from_slice(&bytes[..w]);
                    }
                }
                Ok(())
            }
            TypeDef::Compact(c) => {
                match self.compact_target(c.type_param.id, 0)? {
                    Some(bits) => {
                        let v = self.uint_value(bits);
                        compact_encode(v, out);
                    }
                    None => self.saw_unit_compact = true,
                }
                Ok(())
            }
            TypeDef::Sequence(s) => {
                let n = self.seq_len(depth);
                compact_encode(n as u128, out);
                for _ in 0..n {
                    self.gen(s.type_param.id, depth + 1, out)?;
                }
                Ok(())
            }
            TypeDef::Array(a) => {
                for _ in 0..a.len {
                    self.gen(a.type_param.id, depth + 1, out)?;
                }
                Ok(())
            }
            TypeDef::Tuple(tu) => {
                for f in &tu.fields {
                    self.gen(f.id, depth + 1, out)?;
                }
                Ok(())
            }
            TypeDef::BitSequence(b) => {
                let store = match self.reg.resolve(b.bit_store_type.id).map(|t| &t.type_def) {
                    Some(TypeDef::Primitive(p)) => uint_bits(p).ok_or("bit store not uint")?,
                    _ => return Err("bit store not primitive".into()),
                };
                let nbits: u32 = [0u32, 1, 7, 8, 9, 16, 17, 33, 64, 65, 70][self.rng.gen_range(0..11)];
                compact_encode(nbits as u128, out);
                let elems = (nbits + store - 1) / store;
                let msb = self
                    .reg
                    .resolve(b.bit_order_type.id)
                    .and_then(|t| t.path.segments.last().cloned())
                    .map(|s| s == "Msb0")
                    .unwrap_or(false);
                // unused bits must be zero so that re-encoding is canonical
                let mut remaining = nbits;
                for _ in 0..elems {
                    let used = remaining.min(store);
                    remaining -= used;
                    let raw: u128 = self.rng.gen();
                    let mask: u128 = if used == 128 { u128::MAX } else { (1u128 << used) - 1 };
                    let v = if msb {
                        // Msb0: used bits are the most significant ones of the element
                        (raw & mask) << (store - used)
                    } else {
                        raw & mask
                    };
                    out.extend_from_slice(&v.to_le_bytes()[..(store / 8) as usize]);
                }
                Ok(())
            }
            TypeDef::Composite(c) => {
                if single && pname == "Duration" && c.fields.len() == 2 {
                    let secs = self.uint_value(64) as u64;
                    let nanos = [0u32, 1, 999_999_999][self.rng.gen_range(0..3)];
                    out.extend_from_slice(&secs.to_le_bytes());
                    out.extend_from_slice(&nanos.to_le_bytes());
                    return Ok(());
                }
                if single && pname.starts_with("NonZero") && c.fields.len() == 1 {
                    let start = out.len();
                    self.gen(c.fields[0].ty.id, depth + 1, out)?;
                    if out[start..].iter().all(|b| *b == 0) {
                        out[start] = 1;
                    }
                    return Ok(());
                }
                if single
                    && self.canonical_collections
                    && matches!(pname, "BTreeMap" | "BTreeSet" | "BinaryHeap")
                    && c.fields.len() == 1
                {
                    // at most one element: trivially sorted / heap-ordered
                    let elem = match self.reg.resolve(c.fields[0].ty.id).map(|t| &t.type_def) {
                        Some(TypeDef::Sequence(s)) => s.type_param.id,
                        _ => return Err("collection without sequence field".into()),
                    };
                    let n = if depth > 4 { 0 } else { self.rng.gen_range(0..2) };
                    compact_encode(n as u128, out);
                    for _ in 0..n {
                        self.gen(elem, depth + 1, out)?;
                    }
                    return Ok(());
                }
                for f in &c.fields {
                    self.gen(f.ty.id, depth + 1, out)?;
                }
                Ok(())
            }
            TypeDef::Variant(v) => {
                if v.variants.is_empty() {
                    return Err("empty enum is uninhabited".into());
                }
                // try variants starting from a random one; deep down prefer field-less variants
                let n = v.variants.len();
                let start = self.rng.gen_range(0..n);
                let mut order: Vec<usize> = (0..n).map(|i| (start + i) % n).collect();
                if depth > 3 || self.budget == 0 {
                    order.sort_by_key(|i| v.variants[*i].fields.len());
                }
                let mut last_err = String::new();
                for i in order {
                    let var = &v.variants[i];
                    let mut tmp = vec![var.index];
                    let mut ok = true;
                    for f in &var.fields {
                        if let Err(e) = self.gen(f.ty.id, depth + 1, &mut tmp) {
                            last_err = e;
                            ok = false;
                            break;
                        }
                    }
                    if ok {
                        out.extend_from_slice(&tmp);
                        return Ok(());
                    }
                }
                Err(last_err)
            }
        }
    }
}

// ---------------------------------------------------------------------------------------------
// code-directed decoder / re-encoder
// ---------------------------------------------------------------------------------------------

pub enum DecErr {
    /// the code type cannot accept these bytes
    Reject(String),
    /// the decoder reached a substituted / unknown type: nothing can be said
    Opaque(String),
}

pub struct CodeCodec<'a> {
    pub cm: &'a CModel,
    pub cl: &'a Classifier,
    pub steps: usize,
}

fn take<'b>(input: &mut &'b [u8], n: usize) -> Result<&'b [u8], DecErr> {
    if input.len() < n {
        return Err(DecErr::Reject(format!("unexpected end of input (need {n}, have {})", input.len())));
    }
    let (a, b) = input.split_at(n);
    *input = b;
    Ok(a)
}

impl<'a> CodeCodec<'a> {
    /// Decode one value of closed type `ty` from `input`, appending its re-encoding to `out`.
    pub fn roundtrip(&mut self, ty: &syn::Type, input: &mut &[u8], out: &mut Vec<u8>) -> Result<(), DecErr> {
        self.steps += 1;
        if self.steps > 2_000_000 {
            return Err(DecErr::Opaque("step budget".into()));
        }
        match self.cl.classify(ty) {
            CHead::Bad(w) => Err(DecErr::Reject(format!("bad type: {w}"))),
            CHead::Ident(n) => Err(DecErr::Reject(format!("free identifier {n}"))),
            CHead::Other(p, _) => Err(DecErr::Opaque(p)),
            CHead::Phantom(_) => Ok(()),
            CHead::Box(t) => self.roundtrip(&t, input, out),
            CHead::Prim(p) => self.prim(&p, input, out),
            CHead::Vec(e) | CHead::SeqLike(_, e) => self.seq(&e, input, out),
            CHead::Array(e, n) => {
                for _ in 0..n {
                    self.roundtrip(&e, input, out)?;
                }
                Ok(())
            }
            CHead::Tuple(es) => {
                for e in &es {
                    self.roundtrip(e, input, out)?;
                }
                Ok(())
            }
            CHead::Compact(inner) => self.compact(&inner, input, out, 0),
            CHead::Bits(store, _order) => {
                let bits = match self.cl.classify(&store) {
                    CHead::Prim(p) => uint_bits(&p).ok_or_else(|| DecErr::Reject("bit store is not an unsigned integer".into()))?,
                    _ => return Err(DecErr::Reject("bit store is not a primitive".into())),
                };
                let mut probe = *input;
                let n = compact_decode(&mut probe).map_err(DecErr::Reject)?;
                *input = probe;
                compact_encode(n, out);
                let elems = ((n as u64 + bits as u64 - 1) / bits as u64) as usize;
                let b = take(input, elems * (bits as usize / 8))?;
                out.extend_from_slice(b);
                Ok(())
            }
            CHead::Builtin(name, args) => match name.as_str() {
                "Option" => {
                    let tag = take(input, 1)?[0];
                    out.push(tag);
                    match tag {
                        0 => Ok(()),
                        1 => self.roundtrip(&args[0], input, out),
                        t => Err(DecErr::Reject(format!("invalid Option tag {t}"))),
                    }
                }
                "Result" => {
                    let tag = take(input, 1)?[0];
                    out.push(tag);
                    match tag {
                        0 => self.roundtrip(&args[0], input, out),
                        1 => self.roundtrip(&args[1], input, out),
                        t => Err(DecErr::Reject(format!("invalid Result tag {t}"))),
                    }
                }
                "BTreeMap" => {
                    let kv: syn::Type = {
                        let (k, v) = (&args[0], &args[1]);
                        syn::parse_quote!((#k, #v))
                    };
                    self.seq(&kv, input, out)
                }
                "BTreeSet" | "BinaryHeap" => self.seq(&args[0], input, out),
                "Range" | "RangeInclusive" => {
                    self.roundtrip(&args[0], input, out)?;
                    self.roundtrip(&args[0], input, out)
                }
                "Cow" => match args.last() {
                    Some(t) => self.roundtrip(t, input, out),
                    None => Err(DecErr::Reject("Cow without argument".into())),
                },
                "Duration" => {
                    let s = take(input, 8)?;
                    out.extend_from_slice(s);
                    let n = take(input, 4)?;
                    if u32::from_le_bytes([n[0], n[1], n[2], n[3]]) >= 1_000_000_000 {
                        return Err(DecErr::Reject("Duration nanoseconds out of range".into()));
                    }
                    out.extend_from_slice(n);
                    Ok(())
                }
                n if n.starts_with("NonZero") => {
                    let w = match &n["NonZero".len()..] {
                        "I8" | "U8" => 1,
                        "I16" | "U16" => 2,
                        "I32" | "U32" => 4,
                        "I64" | "U64" => 8,
                        "I128" | "U128" => 16,
                        other => return Err(DecErr::Reject(format!("unknown NonZero{other}"))),
                    };
                    let b = take(input, w)?;
                    if b.iter().all(|x| *x == 0) {
                        return Err(DecErr::Reject("zero in NonZero".into()));
                    }
                    out.extend_from_slice(b);
                    Ok(())
                }
                other => Err(DecErr::Reject(format!("no codec knowledge for {other}"))),
            },
            CHead::Item(path, args) => {
                let item = self.cm.items.get(&path).ok_or_else(|| DecErr::Reject(format!("no item {}", path.join("::"))))?;
                if item.generics.len() != args.len() {
                    return Err(DecErr::Reject(format!("arity mismatch at {}", path.join("::"))));
                }
                let env = env_of(item, &args);
                match &item.kind {
                    ItemKind::Struct(fs) => self.fields(fs, &env, input, out),
                    ItemKind::Enum(vs) => {
                        let tag = take(input, 1)?[0];
                        out.push(tag);
                        let mut found = None;
                        for (pos, v) in vs.iter().enumerate() {
                            let idx = v.index.unwrap_or(pos as u8);
                            if idx == tag {
                                found = Some(v);
                                break;
                            }
                        }
                        let v = found.ok_or_else(|| DecErr::Reject(format!("no variant with index {tag} in {}", path.join("::"))))?;
                        self.fields(&v.fields, &env, input, out)
                    }
                }
            }
        }
    }

    fn fields(
        &mut self,
        fs: &FieldsM,
        env: &HashMap<String, syn::Type>,
        input: &mut &[u8],
        out: &mut Vec<u8>,
    ) -> Result<(), DecErr> {
        for f in &fs.fields {
            if f.skip {
                continue;
            }
            let ty = subst_type(&f.ty, env);
            if f.compact {
                self.compact(&ty, input, out, 0)?;
            } else {
                self.roundtrip(&ty, input, out)?;
            }
        }
        Ok(())
    }

    fn seq(&mut self, e: &syn::Type, input: &mut &[u8], out: &mut Vec<u8>) -> Result<(), DecErr> {
        let n = compact_decode(input).map_err(DecErr::Reject)?;
        if n > input.len() as u128 + 1_000_000 {
            return Err(DecErr::Reject("sequence length exceeds input".into()));
        }
        compact_encode(n, out);
        for _ in 0..n {
            self.roundtrip(e, input, out)?;
        }
        Ok(())
    }

    fn prim(&mut self, p: &TypeDefPrimitive, input: &mut &[u8], out: &mut Vec<u8>) -> Result<(), DecErr> {
        match p {
            TypeDefPrimitive::Str => {
                let n = compact_decode(input).map_err(DecErr::Reject)? as usize;
                let b = take(input, n)?;
                std::str::from_utf8(b).map_err(|_| DecErr::Reject("invalid utf8".into()))?;
                compact_encode(n as u128, out);
                out.extend_from_slice(b);
            }
            TypeDefPrimitive::Bool => {
                let b = take(input, 1)?[0];
                if b > 1 {
                    return Err(DecErr::Reject(format!("invalid bool {b}")));
                }
                out.push(b);
            }
            TypeDefPrimitive::Char => {
                let b = take(input, 4)?;
                let v = u32::from_le_bytes([b[0], b[1], b[2], b[3]]);
                if char::from_u32(v).is_none() {
                    return Err(DecErr::Reject("invalid char".into()));
                }
                out.extend_from_slice(b);
            }
            other => {
                let w = prim_width(other).unwrap();
                out.extend_from_slice(take(input, w)?);
            }
        }
        Ok(())
    }

    /// `Compact<T>` / `#[codec(compact)] T`: T is an unsigned integer, `()` or a single-field
    /// wrapper struct of one (CompactAs).
    fn compact(&mut self, inner: &syn::Type, input: &mut &[u8], out: &mut Vec<u8>, depth: usize) -> Result<(), DecErr> {
        if depth > 8 {
            return Err(DecErr::Reject("compact nesting".into()));
        }
        match self.cl.classify(inner) {
            CHead::Prim(p) => {
                let bits = uint_bits(&p).ok_or_else(|| DecErr::Reject("compact over a non-unsigned primitive".into()))?;
                let v = compact_decode(input).map_err(DecErr::Reject)?;
                if bits < 128 && v >= (1u128 << bits) {
                    return Err(DecErr::Reject(format!("compact value does not fit u{bits}")));
                }
                compact_encode(v, out);
                Ok(())
            }
            CHead::Tuple(es) if es.is_empty() => Ok(()),
            CHead::Box(t) => self.compact(&t, input, out, depth + 1),
            CHead::Item(path, args) => {
                let item = self.cm.items.get(&path).ok_or_else(|| DecErr::Reject(format!("no item {}", path.join("::"))))?;
                let env = env_of(item, &args);
                match &item.kind {
                    ItemKind::Struct(fs) => {
                        let real: Vec<&FieldM> = fs
                            .fields
                            .iter()
                            .filter(|f| !f.skip && !matches!(self.cl.classify(&f.ty), CHead::Phantom(_)))
                            .collect();
                        match real.len() {
                            0 => Ok(()),
                            1 => {
                                let t = subst_type(&real[0].ty, &env);
                                self.compact(&t, input, out, depth + 1)
                            }
                            _ => Err(DecErr::Reject("compact over a multi-field struct".into())),
                        }
                    }
                    _ => Err(DecErr::Reject("compact over an enum".into())),
                }
            }
            CHead::Other(p, _) => Err(DecErr::Opaque(p)),
            _ => Err(DecErr::Reject(format!("compact over unsupported code type {}", ts(inner)))),
        }
    }
}

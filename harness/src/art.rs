//! Driver of the artifact tier for C01 / C02: generate, compile with rustc and the real codec
//! derives, feed reference encodings to the compiled types.

use crate::codec::EncGen;
use crate::ev::*;
use crate::gen::*;
use crate::rt;
use crate::sdesc::*;
use scale_info::PortableRegistry;
use serde_json::json;
use std::collections::BTreeSet;

pub struct ArtInput {
    pub label: String,
    pub reg: PortableRegistry,
    pub d: SDesc,
    pub unjudged: BTreeSet<u32>,
    pub source: Option<String>,
    /// the registry contains an instantiation with a parameter coincidence (DESIGN.md 3.3)
    pub has_noncf: bool,
}

/// Settings under which the emitted module is expected to compile: codec derives, real paths.
pub fn artifact_sdesc(root: &str, docs: bool, compact_as: bool, substitute_maps: bool) -> SDesc {
    let mut d = SDesc::default();
    d.root = root.to_string();
    d.docs = docs;
    d.codec_attrs = true;
    d.compact_path = Some("::parity_scale_codec::Compact".into());
    d.bits_path = Some("::vrt::bits::DecodedBits".into());
    d.compact_as_path = compact_as.then(|| "::parity_scale_codec::CompactAs".to_string());
    d.global_derives = vec!["::parity_scale_codec::Encode".into(), "::parity_scale_codec::Decode".into()];
    if substitute_maps {
        d.substitutes.push(("BTreeMap".into(), "::vrt::KeyedVec".into()));
        d.substitutes.push(("BTreeSet".into(), "::std::vec::Vec".into()));
    }
    d
}

pub struct ArtStats {
    pub compiled: u64,
    pub failed: u64,
    pub roundtrips: u64,
}

/// `prop`: "C01" judges round trips, "C02" judges compilation; both count everything.
pub fn run_batch(ctx: &mut Ctx, prop: &str, inputs: Vec<ArtInput>, slot: usize, encodings_per_id: usize) -> ArtStats {
    let mut stats = ArtStats { compiled: 0, failed: 0, roundtrips: 0 };
    let t_all = std::time::Instant::now();
    let mut cases = Vec::new();
    let mut kept: Vec<&ArtInput> = Vec::new();
    for inp in &inputs {
        let settings = inp.d.build();
        let run = generate(&inp.reg, &settings);
        let tokens = match run.outcome {
            GenOutcome::Ok(ts) => ts,
            _ => {
                ctx.count("artifact_generation_not_ok", 1);
                continue;
            }
        };
        let mut types = Vec::new();
        for t in &inp.reg.types {
            if inp.unjudged.contains(&t.id) {
                continue;
            }
            if let Ok(Ok(ts)) = resolve_path(&inp.reg, &settings, t.id) {
                types.push((t.id, ts.to_string()));
            }
        }
        cases.push(rt::ArtCase { name: inp.label.clone(), module: tokens.to_string(), types, extra: String::new() });
        kept.push(inp);
    }
    if cases.is_empty() {
        return stats;
    }
    ctx.count("artifact_prepare_seconds", t_all.elapsed().as_secs());
    ctx.begin_case(&format!("artifact batch of {} cases", cases.len()));
    let built = rt::build(&cases, &format!("{prop}-{}", ctx.shard), slot, false);
    ctx.count("artifact_build_seconds", built.build_secs as u64);
    if built.exe.is_none() && built.failed.is_empty() {
        ctx.inconclusive(format!(
            "artifact build failed for reasons not attributable to a generated module: {}",
            built.other_errors.join(" || ").chars().take(600).collect::<String>()
        ));
        rt::cleanup(&built);
        return stats;
    }
    for (idx, errs) in &built.failed {
        stats.failed += 1;
        let inp = kept[*idx];
        let codes: BTreeSet<String> = errs.iter().map(|e| rt::error_code(e)).collect();
        ctx.count("artifact_cases_rejected_by_rustc", 1);
        let hidden_box = inp.source.as_deref().map(|s| s.contains("pub type Boxed")).unwrap_or(false);
        let key = if inp.has_noncf {
            // mis-recovered generics (known finding of C03) make the module ill-typed
            "rustc:coincidence".to_string()
        } else if errs.iter().any(|e| e.contains("is only used recursively")) {
            "rustc:param-only-used-recursively".to_string()
        } else if codes.contains("E0072") && hidden_box {
            "rustc:E0072:alias-hidden-box".to_string()
        } else {
            format!("rustc:{}", codes.iter().cloned().collect::<Vec<_>>().join("+"))
        };
        if prop == "C02" {
            ctx.violation(
                format!("C02:{key}"),
                format!("rustc rejects the module generated for {}: {}", inp.label, errs.iter().take(3).cloned().collect::<Vec<_>>().join(" | ")),
                json!({"kind": "registry", "via": "rustc", "registry": crate::reg::to_json(&inp.reg), "sdesc": serde_json::to_value(&inp.d).unwrap(), "source": inp.source, "alias_hidden_box": hidden_box, "has_noncf": inp.has_noncf}),
            );
        } else {
            ctx.count(&format!("artifact_rustc[{key}]"), 1);
        }
    }
    stats.compiled = (cases.len() - built.failed.len()) as u64;
    ctx.count("artifact_cases_compiled", stats.compiled);
    if built.exe.is_some() {
        // reference encodings -> compiled types
        let mut queries: Vec<(&str, usize, u32, Vec<u8>)> = Vec::new();
        for (ci, inp) in kept.iter().enumerate() {
            if built.failed.contains_key(&ci) {
                continue;
            }
            let mut rng = ctx.rng("artifact-enc", hash_of(&inp.label));
            for (id, _) in &cases[ci].types {
                for _ in 0..encodings_per_id {
                    let mut bytes = Vec::new();
                    let mut g = EncGen { reg: &inp.reg, rng: &mut rng, canonical_collections: true, budget: 300, saw_unit_compact: false, steps: 0 };
                    if g.gen(*id, 0, &mut bytes).is_ok() {
                        queries.push(("rt", ci, *id, bytes));
                    }
                }
            }
        }
        let t_run = std::time::Instant::now();
        let run_result = rt::run(&built, &queries);
        ctx.count("artifact_run_seconds", t_run.elapsed().as_secs());
        match run_result {
            Ok(lines) => {
                for ((_, ci, id, bytes), line) in queries.iter().zip(lines.iter()) {
                    stats.roundtrips += 1;
                    let inp = kept[*ci];
                    let want = format!("ok {} {}", bytes.len(), crate::mon::c01::hex_full(bytes));
                    if *line == want {
                        ctx.count("artifact_roundtrips_ok", 1);
                        continue;
                    }
                    let kind = if line.starts_with("err") {
                        "rejected"
                    } else if line.split(' ').nth(1) != Some(&bytes.len().to_string()) {
                        "input-not-consumed"
                    } else {
                        "reencode-differs"
                    };
                    let payload = json!({"kind": "registry", "via": "artifact", "registry": crate::reg::to_json(&inp.reg), "sdesc": serde_json::to_value(&inp.d).unwrap(), "id": id, "bytes": crate::mon::c01::hex_full(bytes), "answer": line, "source": inp.source, "noncf": inp.unjudged});
                    if prop == "C01" {
                        ctx.violation(
                            format!("C01:artifact:{kind}"),
                            format!("compiled generated type for id {id} of {}: sent {} got `{}`", inp.label, crate::mon::c01::hex(bytes), line.chars().take(160).collect::<String>()),
                            payload,
                        );
                    } else {
                        ctx.count(&format!("artifact_roundtrip[{kind}]"), 1);
                    }
                }
            }
            Err(e) => ctx.inconclusive(format!("artifact run failed: {e}")),
        }
    }
    rt::cleanup(&built);
    stats
}

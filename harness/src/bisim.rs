//! Bisimulation between a registry type id and a closed code type (DESIGN.md 4.3): greatest
//! relation computed coinductively over visited *pairs*. Reports the first point of divergence.

use crate::cmodel::*;
use scale_info::{form::PortableForm, Field, PortableRegistry, TypeDef, TypeDefPrimitive};
use std::collections::HashSet;

#[derive(Clone, Debug)]
pub struct Divergence {
    pub kind: &'static str,
    pub trail: Vec<String>,
    pub why: String,
    /// registry ids of the generated (>= 2 segment) types enclosing the point of divergence,
    /// outermost first
    pub enclosing: Vec<u32>,
}

impl Divergence {
    pub fn render(&self) -> String {
        format!("[{}] at {}: {}", self.kind, if self.trail.is_empty() { "<root>".into() } else { self.trail.join(" -> ") }, self.why)
    }
}

pub struct Bisim<'a> {
    pub reg: &'a PortableRegistry,
    pub cm: &'a CModel,
    pub cl: &'a Classifier,
    /// require `#[codec(index)]` to equal the registry index
    pub check_index: bool,
    pub visited: HashSet<(u32, String)>,
    pub pairs: usize,
    pub opaque: usize,
    pub max_depth: usize,
    stack: Vec<u32>,
}

type R = Result<(), Divergence>;

fn div(kind: &'static str, trail: &[String], why: String) -> R {
    Err(Divergence { kind, trail: trail.to_vec(), why, enclosing: vec![] })
}

pub fn is_phantom_type(cl: &Classifier, t: &syn::Type) -> bool {
    matches!(cl.classify(t), CHead::Phantom(_))
}

pub fn prim_name(p: &TypeDefPrimitive) -> &'static str {
    match p {
        TypeDefPrimitive::Bool => "bool",
        TypeDefPrimitive::Char => "char",
        TypeDefPrimitive::Str => "str",
        TypeDefPrimitive::U8 => "u8",
        TypeDefPrimitive::U16 => "u16",
        TypeDefPrimitive::U32 => "u32",
        TypeDefPrimitive::U64 => "u64",
        TypeDefPrimitive::U128 => "u128",
        TypeDefPrimitive::U256 => "u256",
        TypeDefPrimitive::I8 => "i8",
        TypeDefPrimitive::I16 => "i16",
        TypeDefPrimitive::I32 => "i32",
        TypeDefPrimitive::I64 => "i64",
        TypeDefPrimitive::I128 => "i128",
        TypeDefPrimitive::I256 => "i256",
    }
}

impl<'a> Bisim<'a> {
    pub fn new(reg: &'a PortableRegistry, cm: &'a CModel, cl: &'a Classifier, check_index: bool) -> Self {
        Bisim { reg, cm, cl, check_index, visited: HashSet::new(), pairs: 0, opaque: 0, max_depth: 0, stack: vec![] }
    }

    /// Relate registry id `id` with the closed code type `c`.
    pub fn rel(&mut self, id: u32, c: &syn::Type) -> R {
        let mut trail = Vec::new();
        self.rel_in(id, c, &mut trail)
    }

    fn rel_in(&mut self, id: u32, c: &syn::Type, trail: &mut Vec<String>) -> R {
        let generated = self.reg.resolve(id).map(|t| t.path.segments.len() >= 2).unwrap_or(false);
        if generated {
            self.stack.push(id);
        }
        let r = self.rel_inner(id, c, trail);
        let r = match r {
            Err(mut d) => {
                if d.enclosing.is_empty() {
                    d.enclosing = self.stack.clone();
                }
                Err(d)
            }
            ok => ok,
        };
        if generated {
            self.stack.pop();
        }
        r
    }

    fn rel_inner(&mut self, id: u32, c: &syn::Type, trail: &mut Vec<String>) -> R {
        self.max_depth = self.max_depth.max(trail.len());
        let Some(t) = self.reg.resolve(id) else {
            return div("missing-id", trail, format!("registry has no id {id}"));
        };
        let head = self.cl.classify(c);
        // Box is transparent on the code side
        if let CHead::Box(inner) = &head {
            return self.rel_in(id, inner, trail);
        }
        // Cow is transparent on the registry side
        if t.path.segments.len() == 1 && t.path.segments[0] == "Cow" {
            if let TypeDef::Composite(comp) = &t.type_def {
                if comp.fields.len() == 1 {
                    let inner = comp.fields[0].ty.id;
                    if let CHead::Builtin(n, args) = &head {
                        if n == "Cow" {
                            let Some(last) = args.last() else {
                                return div("arity", trail, "Cow without arguments".into());
                            };
                            return self.rel_in(inner, last, trail);
                        }
                    }
                    return self.rel_in(inner, c, trail);
                }
            }
        }
        let key = (id, nows(&ts(c)));
        if !self.visited.insert(key) {
            return Ok(());
        }
        self.pairs += 1;
        match &head {
            CHead::Bad(why) => return div("bad-type", trail, why.clone()),
            CHead::Ident(name) => {
                return div("free-param", trail, format!("bare identifier `{name}` in a closed type position"))
            }
            CHead::Other(..) => {
                self.opaque += 1;
                return Ok(());
            }
            _ => {}
        }
        let mismatch = |this: &Self, what: &str| -> R {
            let _ = this;
            div(
                "head-mismatch",
                trail,
                format!("registry id {id} is {what} but code type is `{}`", nows(&ts(c))),
            )
        };
        match &t.type_def {
            TypeDef::Primitive(p) => match &head {
                CHead::Prim(q) if p == q => Ok(()),
                _ => mismatch(self, &format!("primitive {}", prim_name(p))),
            },
            TypeDef::Compact(comp) => match &head {
                CHead::Compact(inner) => {
                    trail.push("compact".into());
                    let r = self.rel_in(comp.type_param.id, inner, trail);
                    trail.pop();
                    r
                }
                _ => mismatch(self, "a compact"),
            },
            TypeDef::Sequence(s) => match &head {
                CHead::Vec(e) | CHead::SeqLike(_, e) => {
                    trail.push("elem".into());
                    let r = self.rel_in(s.type_param.id, e, trail);
                    trail.pop();
                    r
                }
                _ => mismatch(self, "a sequence"),
            },
            TypeDef::Array(a) => match &head {
                CHead::Array(e, n) => {
                    if *n != a.len as u64 {
                        return div("array-len", trail, format!("registry length {} vs code length {n}", a.len));
                    }
                    trail.push("elem".into());
                    let r = self.rel_in(a.type_param.id, e, trail);
                    trail.pop();
                    r
                }
                _ => mismatch(self, &format!("an array of length {}", a.len)),
            },
            TypeDef::Tuple(tu) => match &head {
                CHead::Tuple(es) => {
                    if es.len() != tu.fields.len() {
                        return div(
                            "tuple-arity",
                            trail,
                            format!("registry arity {} vs code arity {}", tu.fields.len(), es.len()),
                        );
                    }
                    for (i, (f, e)) in tu.fields.iter().zip(es.iter()).enumerate() {
                        trail.push(format!("tuple.{i}"));
                        self.rel_in(f.id, e, trail)?;
                        trail.pop();
                    }
                    Ok(())
                }
                _ => mismatch(self, &format!("a tuple of arity {}", tu.fields.len())),
            },
            TypeDef::BitSequence(b) => match &head {
                CHead::Bits(store, order) => {
                    trail.push("bit-store".into());
                    self.rel_in(b.bit_store_type.id, store, trail)?;
                    trail.pop();
                    let want = self
                        .reg
                        .resolve(b.bit_order_type.id)
                        .and_then(|t| t.path.segments.last().cloned())
                        .unwrap_or_default();
                    let got = match order {
                        syn::Type::Path(tp) => {
                            tp.path.segments.last().map(|s| s.ident.to_string()).unwrap_or_default()
                        }
                        _ => String::new(),
                    };
                    if want != got {
                        return div("bits-order", trail, format!("registry bit order {want} vs code `{}`", nows(&ts(order))));
                    }
                    Ok(())
                }
                _ => mismatch(self, "a bit sequence"),
            },
            TypeDef::Composite(comp) => {
                if t.path.segments.len() == 1 {
                    return self.rel_builtin(id, &t.path.segments[0], &head, c, trail);
                }
                let CHead::Item(path, args) = &head else {
                    return mismatch(self, &format!("struct {}", t.path.segments.join("::")));
                };
                let item = self.item_for(&t.path.segments, path, args, trail)?;
                let ItemKind::Struct(fields) = &item.kind else {
                    return div("kind", trail, format!("{} is a struct in the registry but an enum in the code", path.join("::")));
                };
                let env = env_of(item, args);
                self.rel_fields(&comp.fields, fields, &env, trail)
            }
            TypeDef::Variant(var) => {
                if t.path.segments.len() == 1 {
                    return self.rel_builtin(id, &t.path.segments[0], &head, c, trail);
                }
                let CHead::Item(path, args) = &head else {
                    return mismatch(self, &format!("enum {}", t.path.segments.join("::")));
                };
                let item = self.item_for(&t.path.segments, path, args, trail)?;
                let ItemKind::Enum(variants) = &item.kind else {
                    return div("kind", trail, format!("{} is an enum in the registry but a struct in the code", path.join("::")));
                };
                let env = env_of(item, args);
                let real: Vec<&VariantM> = variants.iter().filter(|v| v.name != "__Ignore").collect();
                if real.len() != var.variants.len() {
                    return div(
                        "variant-count",
                        trail,
                        format!("registry has {} variants, code has {}", var.variants.len(), real.len()),
                    );
                }
                for (rv, cv) in var.variants.iter().zip(real.iter()) {
                    if rv.name != cv.name {
                        return div("variant-name", trail, format!("registry variant {} vs code variant {}", rv.name, cv.name));
                    }
                    if self.check_index && cv.index != Some(rv.index) {
                        return div(
                            "variant-index",
                            trail,
                            format!("variant {}: registry index {} vs code index {:?}", rv.name, rv.index, cv.index),
                        );
                    }
                    trail.push(format!("variant {}", rv.name));
                    self.rel_fields(&rv.fields, &cv.fields, &env, trail)?;
                    trail.pop();
                }
                Ok(())
            }
        }
    }

    fn item_for(
        &self,
        reg_path: &[String],
        code_path: &[String],
        args: &[syn::Type],
        trail: &[String],
    ) -> Result<&'a Item, Divergence> {
        if code_path.len() != reg_path.len() + 1 || code_path[1..] != *reg_path {
            return Err(Divergence {
                kind: "path",
                trail: trail.to_vec(),
                why: format!("registry path {} vs code path {}", reg_path.join("::"), code_path.join("::")),
                enclosing: vec![],
            });
        }
        let Some(item) = self.cm.items.get(code_path) else {
            return Err(Divergence {
                kind: "dangling",
                trail: trail.to_vec(),
                why: format!("no item emitted at {}", code_path.join("::")),
                enclosing: vec![],
            });
        };
        if item.generics.len() != args.len() {
            return Err(Divergence {
                kind: "arity",
                trail: trail.to_vec(),
                why: format!(
                    "{} declares {} parameters but is applied to {}",
                    code_path.join("::"),
                    item.generics.len(),
                    args.len()
                ),
                enclosing: vec![],
            });
        }
        Ok(item)
    }

    fn rel_fields(
        &mut self,
        rf: &[Field<PortableForm>],
        cf: &FieldsM,
        env: &std::collections::HashMap<String, syn::Type>,
        trail: &mut Vec<String>,
    ) -> R {
        let real: Vec<&FieldM> = cf.fields.iter().filter(|f| !f.skip && !is_phantom_type(self.cl, &f.ty)).collect();
        if real.len() != rf.len() {
            return div("field-count", trail, format!("registry has {} fields, code has {}", rf.len(), real.len()));
        }
        for (i, (r, c)) in rf.iter().zip(real.iter()).enumerate() {
            if r.name != c.name {
                return div("field-name", trail, format!("field {i}: registry name {:?} vs code name {:?}", r.name, c.name));
            }
            trail.push(match &r.name {
                Some(n) => format!("field {n}"),
                None => format!("field {i}"),
            });
            let ty = subst_type(&c.ty, env);
            if c.compact {
                let Some(rt) = self.reg.resolve(r.ty.id) else {
                    return div("missing-id", trail, format!("registry has no id {}", r.ty.id));
                };
                match &rt.type_def {
                    TypeDef::Compact(comp) => {
                        trail.push("compact".into());
                        self.rel_in(comp.type_param.id, &ty, trail)?;
                        trail.pop();
                    }
                    _ => return div("compact-marker", trail, "code field is #[codec(compact)] but the registry type is not compact".into()),
                }
            } else {
                self.rel_in(r.ty.id, &ty, trail)?;
            }
            trail.pop();
        }
        Ok(())
    }

    fn rel_builtin(&mut self, id: u32, name: &str, head: &CHead, c: &syn::Type, trail: &mut Vec<String>) -> R {
        let t = self.reg.resolve(id).unwrap();
        if name == "PhantomData" {
            return match head {
                CHead::Phantom(_) => Ok(()),
                _ => div("head-mismatch", trail, format!("registry PhantomData vs code `{}`", nows(&ts(c)))),
            };
        }
        let CHead::Builtin(cname, args) = head else {
            return div("head-mismatch", trail, format!("registry prelude type {name} vs code `{}`", nows(&ts(c))));
        };
        if cname != name {
            return div("prelude-name", trail, format!("registry prelude type {name} vs code prelude type {cname}"));
        }
        let bad_shape = |trail: &[String]| div("registry-shape", trail, format!("prelude type {name} does not have scale-info's definition"));
        let fields_of = |vname: &str| -> Option<Vec<u32>> {
            match &t.type_def {
                TypeDef::Variant(v) => {
                    v.variants.iter().find(|x| x.name == vname).map(|x| x.fields.iter().map(|f| f.ty.id).collect())
                }
                _ => None,
            }
        };
        let comp_fields: Option<Vec<u32>> = match &t.type_def {
            TypeDef::Composite(c) => Some(c.fields.iter().map(|f| f.ty.id).collect()),
            _ => None,
        };
        let seq_elem = |reg: &PortableRegistry, id: u32| -> Option<u32> {
            match &reg.resolve(id)?.type_def {
                TypeDef::Sequence(s) => Some(s.type_param.id),
                _ => None,
            }
        };
        match name {
            "Option" => {
                // `Option<PhantomData<T>>`: scale-info drops the PhantomData field of `Some`
                if fields_of("Some").map(|f| f.is_empty()).unwrap_or(false) {
                    return if matches!(self.cl.classify(&args[0]), CHead::Phantom(_)) {
                        Ok(())
                    } else {
                        div("head-mismatch", trail, format!("registry Option::Some has no field but the code argument is `{}`", nows(&ts(&args[0]))))
                    };
                }
                let Some(f) = fields_of("Some").filter(|f| f.len() == 1) else { return bad_shape(trail) };
                trail.push("Option.Some".into());
                self.rel_in(f[0], &args[0], trail)?;
                trail.pop();
                Ok(())
            }
            "Result" => {
                let (Some(ok), Some(err)) = (fields_of("Ok").filter(|f| f.len() <= 1), fields_of("Err").filter(|f| f.len() <= 1)) else {
                    return bad_shape(trail);
                };
                for (label, fs, arg) in [("Result.Ok", ok, &args[0]), ("Result.Err", err, &args[1])] {
                    trail.push(label.into());
                    if fs.is_empty() {
                        // dropped PhantomData field
                        if !matches!(self.cl.classify(arg), CHead::Phantom(_)) {
                            return div("head-mismatch", trail, format!("registry variant has no field but the code argument is `{}`", nows(&ts(arg))));
                        }
                    } else {
                        self.rel_in(fs[0], arg, trail)?;
                    }
                    trail.pop();
                }
                Ok(())
            }
            "BTreeMap" => {
                let Some(f) = comp_fields.filter(|f| f.len() == 1) else { return bad_shape(trail) };
                let Some(e) = seq_elem(self.reg, f[0]) else { return bad_shape(trail) };
                let kv = match self.reg.resolve(e).map(|t| &t.type_def) {
                    Some(TypeDef::Tuple(tu)) if tu.fields.len() == 2 => (tu.fields[0].id, tu.fields[1].id),
                    // `BTreeMap<K, PhantomData<T>>`: scale-info drops PhantomData members of the
                    // `(K, V)` tuple, the element is the one-element tuple `(K,)` (nothing of V is
                    // on the wire); the code argument for the dropped side must be a PhantomData
                    Some(TypeDef::Tuple(tu)) if tu.fields.len() == 1 => {
                        let (kept, dropped, label) = if matches!(self.cl.classify(&args[1]), CHead::Phantom(_)) { (0, 1, "BTreeMap.key") } else { (1, 0, "BTreeMap.value") };
                        if !matches!(self.cl.classify(&args[dropped]), CHead::Phantom(_)) {
                            return div("head-mismatch", trail, format!("registry BTreeMap element has one member but neither code argument is a PhantomData: `{}`", nows(&ts(c))));
                        }
                        trail.push(label.into());
                        self.rel_in(tu.fields[0].id, &args[kept], trail)?;
                        trail.pop();
                        return Ok(());
                    }
                    _ => return bad_shape(trail),
                };
                trail.push("BTreeMap.key".into());
                self.rel_in(kv.0, &args[0], trail)?;
                trail.pop();
                trail.push("BTreeMap.value".into());
                self.rel_in(kv.1, &args[1], trail)?;
                trail.pop();
                Ok(())
            }
            "BTreeSet" | "BinaryHeap" => {
                let Some(f) = comp_fields.filter(|f| f.len() == 1) else { return bad_shape(trail) };
                let Some(e) = seq_elem(self.reg, f[0]) else { return bad_shape(trail) };
                trail.push(format!("{name}.elem"));
                self.rel_in(e, &args[0], trail)?;
                trail.pop();
                Ok(())
            }
            "Range" | "RangeInclusive" => {
                let Some(f) = comp_fields.filter(|f| f.len() == 2) else { return bad_shape(trail) };
                for (i, fid) in f.iter().enumerate() {
                    trail.push(format!("{name}.{i}"));
                    self.rel_in(*fid, &args[0], trail)?;
                    trail.pop();
                }
                Ok(())
            }
            "Duration" => {
                let Some(f) = comp_fields.filter(|f| f.len() == 2) else { return bad_shape(trail) };
                let p = |id: u32| match self.reg.resolve(id).map(|t| &t.type_def) {
                    Some(TypeDef::Primitive(p)) => Some(p.clone()),
                    _ => None,
                };
                if p(f[0]) == Some(TypeDefPrimitive::U64) && p(f[1]) == Some(TypeDefPrimitive::U32) {
                    Ok(())
                } else {
                    bad_shape(trail)
                }
            }
            n if n.starts_with("NonZero") => {
                let Some(f) = comp_fields.filter(|f| f.len() == 1) else { return bad_shape(trail) };
                let want = n.trim_start_matches("NonZero").to_lowercase();
                match self.reg.resolve(f[0]).map(|t| &t.type_def) {
                    Some(TypeDef::Primitive(p)) if prim_name(p) == want => Ok(()),
                    _ => div("prelude-name", trail, format!("registry {n} wraps a different primitive")),
                }
            }
            other => div("unknown-prelude", trail, format!("no wire knowledge about prelude type {other}")),
        }
    }
}
